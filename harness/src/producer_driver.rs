//! Replay driver for the leader's block production (spec: Producer.tla / MC_Producer.tla).
//!
//! Every transition of the TLC model is replayed into the REAL `BlockProducer` (through the add-only
//! wrapper `alpenglow::consensus::VerifBlockProducer`) running as a task on tokio's paused clock:
//!   * transactions come from a channel-backed `TransactionNetwork`, one model `tx` step = one
//!     transaction (a `burst` step = n transactions back to back),
//!   * a recording `Disseminator` collects every shred handed out; the shreds of each slice are
//!     validated and de-shredded again with the real `RegularShredder` to read index, last flag,
//!     parent field, payload size and the transactions of the slice,
//!   * a real `BlockstoreImpl` and a real `PoolImpl` (the registration of the block with its parent
//!     is read from the verification event log),
//!   * `--entry direct`: `produce_block_parent_ready` / `produce_block_parent_not_ready` are called
//!     directly and the ParentReady oneshot is owned by the harness;
//!     `--entry loop`: the real `block_production_loop` runs (`wait_for_first_slot` decides between
//!     the two variants from the real pool / blockstore contents) and ParentReady is produced by the
//!     real pool from real certificates.
//! One model tick = `TICK` of virtual time (`tokio::time::sleep`); nothing depends on wall-clock time:
//! the code's `std::time::Instant` measurements are ~0 and far below one tick (see Producer.tla, Frozen).
//! After every step the producer task runs until it is idle.  Panics of the task are data.
//! Expectations come from the TLC output only; this file concretises, runs, projects and compares.

use std::collections::{HashMap, VecDeque};
use std::sync::atomic::{AtomicUsize, Ordering};
use std::sync::{Arc, Mutex};
use std::time::Duration;

use alpenglow::consensus::{
    Blockstore, BlockstoreEvent, BlockstoreImpl, Cert, NotarCert, NotarVote, Pool, PoolEvent,
    PoolImpl, SharedBlockstore, SharedPool, SkipCert, SkipVote, ValidatedCert, VerifBlockProducer,
};
use alpenglow::network::Network;
use alpenglow::shredder::{RegularShredder, Shred, Shredder, TOTAL_SHREDS, ValidatedShred};
use alpenglow::types::{Slice, SliceIndex, Slot};
use alpenglow::verif::VerifEvent;
use alpenglow::{BlockId, Disseminator, Transaction, ValidatorIndex};
use serde_json::{Value, json};
use tokio::sync::{RwLock, mpsc, oneshot};
use tokio::task::JoinHandle;
use tokio_util::sync::CancellationToken;

use crate::graph::{self, Driver};
use crate::world::{World, hash_bytes};

/// one model tick of virtual time; far above any wall-clock duration a walk can take
const TICK: Duration = Duration::from_secs(100_000);
/// slot of the block under production: first slot of window 1
const SLOT: u64 = 4;

// ---------------------------------------------------------------- environment of the producer
struct TxNet {
    rx: tokio::sync::Mutex<mpsc::UnboundedReceiver<Transaction>>,
    pending: Arc<AtomicUsize>,
}

impl Network for TxNet {
    type Send = Transaction;
    type Recv = Transaction;

    async fn send(&self, _m: &Transaction, _a: std::net::SocketAddr) -> std::io::Result<()> {
        Ok(())
    }

    async fn send_to_many(
        &self,
        _m: &Transaction,
        _a: impl IntoIterator<Item = std::net::SocketAddr> + Send,
    ) -> std::io::Result<()> {
        Ok(())
    }

    async fn receive(&self) -> std::io::Result<Transaction> {
        let mut rx = self.rx.lock().await;
        match rx.recv().await {
            Some(t) => {
                self.pending.fetch_sub(1, Ordering::SeqCst);
                Ok(t)
            }
            None => std::future::pending().await,
        }
    }
}

#[derive(Default)]
struct RecDissem {
    shreds: Mutex<Vec<Shred>>,
    total: AtomicUsize,
}

impl Disseminator for RecDissem {
    async fn send(&self, shred: &Shred) -> std::io::Result<()> {
        self.shreds.lock().unwrap().push(shred.clone());
        self.total.fetch_add(1, Ordering::SeqCst);
        Ok(())
    }

    async fn forward(&self, _shred: &Shred) -> std::io::Result<()> {
        Ok(())
    }

    async fn receive(&self) -> std::io::Result<Shred> {
        std::future::pending().await
    }
}

struct Run {
    variant: String,
    tx: mpsc::UnboundedSender<Transaction>,
    pending: Arc<AtomicUsize>,
    dissem: Arc<RecDissem>,
    blockstore: SharedBlockstore,
    pool: SharedPool,
    pr_tx: Option<oneshot::Sender<BlockId>>,
    handle: Option<JoinHandle<anyhow::Result<Option<BlockId>>>>,
    /// shreds taken from the recorder and not yet turned into a slice
    backlog: Vec<Shred>,
    /// accepted (per the model) transactions not yet seen in a slice, in sending order
    expected_txs: VecDeque<Vec<u8>>,
    /// all transactions seen in slices so far
    in_slices: Vec<Vec<u8>>,
    shipped: Vec<Value>,
    returned: Option<BlockId>,
    done: bool,
    eff: String,
    panicked: bool,
    seq: u64,
    names: HashMap<Vec<u8>, String>,
    blocks: HashMap<String, BlockId>,
    _keep: (mpsc::Receiver<BlockstoreEvent>, mpsc::Receiver<PoolEvent>, mpsc::Receiver<BlockId>),
}

pub struct ProducerDriver {
    world: World,
    rt: tokio::runtime::Runtime,
    seed: u64,
    own: usize,
    loop_entry: bool,
    delta_block: u32,
    delta_first: u32,
    run: Option<Run>,
    /// certificates and the previous leader's block are the same in every walk
    cert_cache: HashMap<(u64, Vec<u8>, bool), ValidatedCert>,
    prev_block: Option<Vec<ValidatedShred>>,
    /// actions of the current walk; expected panics the real task reproduced (shortest walk kept)
    walk: Vec<Value>,
    pub panics_reproduced: u64,
    pub panic_walk: Option<Vec<Value>>,
}

fn slice_index(i: usize) -> SliceIndex {
    serde_json::from_str(&i.to_string()).expect("slice index")
}

fn panic_kind(msg: &str) -> String {
    if msg.contains("shredding of valid slice should never fail") {
        "shred".to_string()
    } else if msg.contains("own block failed reconstruction") {
        "reconstruct".to_string()
    } else {
        format!("other: {msg}")
    }
}

impl ProducerDriver {
    pub fn new(seed: u64, loop_entry: bool, delta_block: u32, delta_first: u32) -> Self {
        let rt = tokio::runtime::Builder::new_current_thread()
            .enable_all()
            .start_paused(true)
            .rng_seed(tokio::runtime::RngSeed::from_bytes(&seed.to_le_bytes()))
            .build()
            .expect("runtime");
        Self {
            world: World::new(&[1, 1, 1], seed),
            rt,
            seed,
            own: 1, // leader of window 1 (slots 4..7)
            loop_entry,
            delta_block,
            delta_first,
            run: None,
            cert_cache: HashMap::new(),
            prev_block: None,
            walk: Vec::new(),
            panics_reproduced: 0,
            panic_walk: None,
        }
    }

    fn notar_cert(&mut self, b: &BlockId) -> ValidatedCert {
        let key = (b.0.inner(), hash_bytes(&b.1), true);
        if let Some(c) = self.cert_cache.get(&key) {
            return c.clone();
        }
        let vals = self.world.epoch.validators().to_vec();
        let votes: Vec<NotarVote> = (0..self.world.n)
            .map(|v| NotarVote::new(b.0, b.1.clone(), &self.world.voting_sks[v], ValidatorIndex::new(v as u64)))
            .collect();
        let c = ValidatedCert::try_new(Cert::Notar(NotarCert::new(&votes, &vals)), &self.world.epoch).expect("harness cert validates");
        self.cert_cache.insert(key, c.clone());
        c
    }

    fn skip_cert(&mut self, slot: Slot) -> ValidatedCert {
        let key = (slot.inner(), Vec::new(), false);
        if let Some(c) = self.cert_cache.get(&key) {
            return c.clone();
        }
        let vals = self.world.epoch.validators().to_vec();
        let votes: Vec<SkipVote> = (0..self.world.n)
            .map(|v| SkipVote::new(slot, &self.world.voting_sks[v], ValidatorIndex::new(v as u64)))
            .collect();
        let c = ValidatedCert::try_new(Cert::Skip(SkipCert::new(&votes, &[], &vals)), &self.world.epoch).expect("harness cert validates");
        self.cert_cache.insert(key, c.clone());
        c
    }

    /// transaction number `seq` of the walk: unique content of the requested length
    fn tx_bytes(&self, seq: u64, len: usize) -> Vec<u8> {
        let mut st = self.seed ^ seq.wrapping_mul(0x9E37_79B9_7F4A_7C15) ^ 0x50D0;
        let mut v: Vec<u8> = (0..len)
            .map(|_| {
                st ^= st << 13;
                st ^= st >> 7;
                st ^= st << 17;
                (st >> 24) as u8
            })
            .collect();
        for (i, b) in seq.to_le_bytes().iter().enumerate() {
            if i < v.len() {
                v[i] = *b;
            }
        }
        v
    }

    fn start(&mut self, variant: &str) -> Result<(), String> {
        let _ = alpenglow::verif::drain();
        let own = self.own;
        let vepoch = self.world.validator_epoch(own);
        let (etx, erx) = mpsc::channel(1 << 16);
        let mut store = BlockstoreImpl::new(etx);
        let (ptx, prx) = mpsc::channel(1 << 16);
        let (rtx, rrx) = mpsc::channel(1 << 16);
        let mut pool_impl = PoolImpl::new(vepoch.clone(), ptx, rtx);

        // the blocks ParentReady may name
        let mut blocks: HashMap<String, BlockId> = HashMap::new();
        let prev = Slot::new(SLOT - 1);
        let mut a_id: BlockId = (prev, self.world.hash("A"));
        blocks.insert("B".into(), (prev, self.world.hash("B")));
        blocks.insert("C".into(), (Slot::new(SLOT - 2), self.world.hash("C")));
        if self.loop_entry && variant == "notready" {
            // wait_for_first_slot: the blockstore holds a disseminated block for the previous slot
            if self.prev_block.is_none() {
                let slice = Slice {
                    slot: prev,
                    slice_index: slice_index(0),
                    is_last: true,
                    parent: Some((Slot::new(SLOT - 2), self.world.hash("P"))),
                    data: 0u64.to_le_bytes().to_vec(),
                };
                let shreds = RegularShredder::default().shred(&slice, &self.world.sks[0]).map_err(|e| format!("harness: {e:?}"))?;
                self.prev_block = Some(shreds.to_vec());
            }
            let shreds = self.prev_block.clone().unwrap();
            let mut info = None;
            for s in shreds {
                match futures::executor::block_on(store.add_shred_from_dissemination(s)) {
                    Ok(Some(bi)) => info = Some(bi),
                    Ok(None) => {}
                    Err(e) => {
                        if info.is_none() {
                            return Err(format!("harness: previous block refused: {e:?}"));
                        }
                    }
                }
            }
            let info = info.ok_or("harness: previous block did not reconstruct")?;
            a_id = (prev, info.verif_hash().clone());
        }
        blocks.insert("A".into(), a_id.clone());
        if self.loop_entry && variant == "ready" {
            // wait_for_first_slot: the pool already emitted ParentReady(4, A)
            let cert = self.notar_cert(&a_id);
            futures::executor::block_on(pool_impl.add_cert(cert)).map_err(|e| format!("harness: {e:?}"))?;
        }
        let mut names = HashMap::new();
        for (n, b) in &blocks {
            names.insert(hash_bytes(&b.1), n.clone());
        }

        let blockstore: SharedBlockstore = Arc::new(RwLock::new(store));
        let pool: SharedPool = Arc::new(RwLock::new(pool_impl));
        let (tx, rx) = mpsc::unbounded_channel();
        let pending = Arc::new(AtomicUsize::new(0));
        let net = TxNet { rx: tokio::sync::Mutex::new(rx), pending: pending.clone() };
        let dissem = Arc::new(RecDissem::default());
        let producer = VerifBlockProducer::new(
            self.world.sks[own].clone(),
            vepoch,
            dissem.clone(),
            net,
            blockstore.clone(),
            pool.clone(),
            CancellationToken::new(),
            TICK * self.delta_block,
            TICK * self.delta_first,
        );
        let slot = Slot::new(SLOT);
        let mut pr_tx = None;
        let handle = if self.loop_entry {
            self.rt.spawn(async move { producer.block_production_loop().await.map(|()| None) })
        } else if variant == "ready" {
            self.rt.spawn(async move { producer.produce_block_parent_ready(slot, a_id).await.map(Some) })
        } else {
            let (s, r) = oneshot::channel();
            pr_tx = Some(s);
            self.rt.spawn(async move { producer.produce_block_parent_not_ready(slot, a_id, r).await.map(Some) })
        };
        self.run = Some(Run {
            variant: variant.to_string(),
            tx,
            pending,
            dissem,
            blockstore,
            pool,
            pr_tx,
            handle: Some(handle),
            backlog: Vec::new(),
            expected_txs: VecDeque::new(),
            in_slices: Vec::new(),
            shipped: Vec::new(),
            returned: None,
            done: false,
            eff: String::new(),
            panicked: false,
            seq: 0,
            names,
            blocks,
            _keep: (erx, prx, rrx),
        });
        Ok(())
    }

    /// lets the producer task run until it waits for the environment again
    fn quiesce(&mut self) {
        let run = self.run.as_ref().expect("run");
        let pending = run.pending.clone();
        self.rt.block_on(async {
            for _ in 0..4096 {
                for _ in 0..8 {
                    tokio::task::yield_now().await;
                }
                if pending.load(Ordering::SeqCst) == 0 {
                    break;
                }
            }
            for _ in 0..8 {
                tokio::task::yield_now().await;
            }
        });
    }

    fn signature(&self) -> (usize, bool) {
        let run = self.run.as_ref().expect("run");
        (run.dissem.total.load(Ordering::SeqCst), run.handle.as_ref().is_none_or(JoinHandle::is_finished))
    }

    /// everything the producer did since the last call, in the shape of the model's step output
    fn collect(&mut self, model_acc: u64) -> Value {
        let mut chk: Vec<String> = Vec::new();
        self.quiesce();
        // idle means idle: further scheduler rounds change nothing
        let before = self.signature();
        self.rt.block_on(async {
            for _ in 0..16 {
                tokio::task::yield_now().await;
            }
        });
        if self.signature() != before {
            chk.push("harness: producer task not idle after the step".into());
        }
        let pk = self.world.sks[self.own].to_pk();
        let slot = Slot::new(SLOT);
        let mut panic = String::new();
        let mut ship = Vec::new();
        let mut done_now = false;
        let run = self.run.as_mut().expect("run");
        let _ = model_acc;

        // new slices of the block under production, from the shreds given to the disseminator
        let fresh = std::mem::take(&mut *run.dissem.shreds.lock().unwrap());
        run.backlog.extend(fresh);
        while run.backlog.len() >= TOTAL_SHREDS {
            let group: Vec<Shred> = run.backlog.drain(..TOTAL_SHREDS).collect();
            let mut arr: [Option<ValidatedShred>; TOTAL_SHREDS] = [const { None }; TOTAL_SHREDS];
            let mut commitment = None;
            for (i, s) in group.iter().enumerate() {
                match ValidatedShred::try_new(s.clone(), commitment.as_ref(), &pk) {
                    Ok(v) => {
                        commitment = Some(v.commitment());
                        arr[i] = Some(v);
                    }
                    Err(e) => chk.push(format!("shred {i} of a slice does not validate: {e:?}")),
                }
            }
            match RegularShredder::default().deshred(&mut arr) {
                Ok(slice) if slice.slot != slot => {} // a later block of the window (loop entry)
                Ok(slice) => {
                    let par = match &slice.parent {
                        None => "none".to_string(),
                        Some(b) => run.names.get(&hash_bytes(&b.1)).filter(|n| run.blocks[*n].0 == b.0).cloned()
                            .unwrap_or_else(|| format!("?{}", b.0.inner())),
                    };
                    let size = wincode::serialize(&(slice.parent.clone(), slice.data.clone())).map(|b| b.len()).unwrap_or(0);
                    let txs: Vec<Transaction> = wincode::deserialize(&slice.data).unwrap_or_else(|_| {
                        chk.push("slice data does not decode into transactions".into());
                        Vec::new()
                    });
                    for t in &txs {
                        // the transactions of the slices are the accepted ones, each once, in the order sent
                        match run.expected_txs.pop_front() {
                            Some(e) if e == t.0 => {}
                            _ => chk.push("transactions in the slice differ from the accepted ones".into()),
                        }
                        run.in_slices.push(t.0.clone());
                    }
                    let idx: usize = serde_json::to_value(slice.slice_index).ok().and_then(|v| v.as_u64()).unwrap_or(9999) as usize;
                    let v = json!({"idx": idx, "last": slice.is_last, "par": par, "size": size, "ntx": txs.len()});
                    run.shipped.push(v.clone());
                    ship.push(v);
                }
                Err(e) => chk.push(format!("slice does not deshred: {e:?}")),
            }
        }
        if !run.backlog.is_empty() {
            chk.push("a slice was disseminated only partially".into());
        }

        // task outcome
        if run.handle.as_ref().is_some_and(JoinHandle::is_finished) {
            let h = run.handle.take().unwrap();
            match self.rt.block_on(h) {
                Ok(Ok(Some(b))) => run.returned = Some(b),
                Ok(Ok(None)) => chk.push("block production loop returned".into()),
                Ok(Err(e)) => chk.push(format!("producer returned an error: {e}")),
                Err(e) if e.is_panic() => {
                    let p = e.into_panic();
                    let msg = p.downcast_ref::<&str>().map(|s| (*s).to_string())
                        .or_else(|| p.downcast_ref::<String>().cloned()).unwrap_or_else(|| "panic".into());
                    panic = panic_kind(&msg);
                    run.panicked = true;
                }
                Err(e) => chk.push(format!("producer task failed: {e}")),
            }
        }

        // completion: Pool::add_block (event log), the blockstore's block, the returned id
        let mut eff = String::new();
        for ev in alpenglow::verif::drain() {
            if let VerifEvent::Block { block, parent, .. } = ev
                && block.0 == slot
            {
                if run.done {
                    chk.push("block registered twice".into());
                }
                run.done = true;
                done_now = true;
                eff = run.names.get(&hash_bytes(&parent.1)).filter(|n| run.blocks[*n].0 == parent.0).cloned()
                    .unwrap_or_else(|| format!("?{}", parent.0.inner()));
                run.eff = eff.clone();
                let bs = run.blockstore.clone();
                let got = futures::executor::block_on(async {
                    let g = bs.read().await;
                    g.get_block(&block).map(|b| (b.verif_parent(), b.verif_transactions().iter().map(|t| t.0.clone()).collect::<Vec<_>>()))
                });
                match got {
                    Some((p, txs)) => {
                        if p != parent {
                            chk.push("blockstore and pool disagree on the parent".into());
                        }
                        if txs != run.in_slices {
                            chk.push("block content differs from the slices".into());
                        }
                        if !run.expected_txs.is_empty() {
                            chk.push("accepted transactions missing from the block".into());
                        }
                    }
                    None => chk.push("completed block not in the blockstore".into()),
                }
                if let Some(r) = &run.returned
                    && *r != block
                {
                    chk.push("returned block id differs from the registered one".into());
                }
            }
        }
        if !self.loop_entry && run.returned.is_some() != run.done {
            chk.push("return of produce_block and registration with the pool disagree".into());
        }
        json!({"ship": ship, "done": done_now, "eff": eff, "panic": panic, "chk": chk})
    }

    fn send_tx(&mut self, len: usize, accepted: bool) {
        let seq = self.run.as_ref().unwrap().seq;
        let bytes = self.tx_bytes(seq, len);
        let run = self.run.as_mut().unwrap();
        run.seq += 1;
        if accepted {
            run.expected_txs.push_back(bytes.clone());
        }
        run.pending.fetch_add(1, Ordering::SeqCst);
        let _ = run.tx.send(Transaction(bytes));
    }
}

impl Driver for ProducerDriver {
    fn reset(&mut self) {
        if let Some(mut r) = self.run.take()
            && let Some(h) = r.handle.take()
        {
            h.abort();
            let _ = self.rt.block_on(h);
        }
        let _ = alpenglow::verif::drain();
        self.walk.clear();
    }

    fn step(&mut self, act: &Value) -> Value {
        self.walk.push(act.clone());
        let op = act["op"].as_str().unwrap_or("");
        let err = |m: String| json!({"ship": [], "done": false, "eff": "", "panic": "", "chk": [m]});
        match op {
            "start" => {
                let v = act["v"].as_str().unwrap_or("").to_string();
                if let Err(e) = self.start(&v) {
                    return err(e);
                }
                self.collect(0)
            }
            _ if self.run.is_none() => err("harness: step before start".into()),
            "tx" => {
                let len = act["len"].as_u64().unwrap_or(0) as usize;
                // which transactions are taken into the block is the model's statement (`acc` of the action)
                self.send_tx(len, act["acc"].as_u64().unwrap_or(0) >= 1);
                self.collect(0)
            }
            "burst" => {
                let len = act["len"].as_u64().unwrap_or(0) as usize;
                let n = act["n"].as_u64().unwrap_or(0);
                let acc = act["acc"].as_u64().unwrap_or(0);
                for k in 0..n {
                    self.send_tx(len, k < acc);
                }
                self.collect(0)
            }
            "tick" => {
                self.rt.block_on(async { tokio::time::sleep(TICK).await });
                self.collect(0)
            }
            "pr" => {
                let name = act["b"].as_str().unwrap_or("").to_string();
                let b = self.run.as_ref().unwrap().blocks.get(&name).cloned();
                let Some(b) = b else { return err(format!("harness: unknown block {name}")) };
                if self.loop_entry {
                    // the real pool emits ParentReady(4, b) from certificates
                    let mut certs = vec![self.notar_cert(&b)];
                    if b.0.inner() + 1 < SLOT {
                        certs.push(self.skip_cert(Slot::new(SLOT - 1)));
                    }
                    let pool = self.run.as_ref().unwrap().pool.clone();
                    let res: Result<(), String> = self.rt.block_on(async {
                        for c in certs {
                            pool.write().await.add_cert(c).await.map_err(|e| format!("harness: {e:?}"))?;
                        }
                        Ok(())
                    });
                    if let Err(e) = res {
                        return err(e);
                    }
                } else {
                    match self.run.as_mut().unwrap().pr_tx.take() {
                        Some(s) => {
                            let _ = s.send(b);
                        }
                        None => return err("harness: ParentReady sent twice".into()),
                    }
                }
                self.collect(0)
            }
            o => err(format!("harness: unknown op {o}")),
        }
    }

    fn obs(&mut self) -> Value {
        let Some(run) = self.run.as_ref() else {
            return json!({"n": 0, "sl": [], "done": false, "eff": ""});
        };
        let sl: Vec<Value> = run.shipped.iter().map(|s| json!({"idx": s["idx"], "last": s["last"], "par": s["par"]})).collect();
        json!({"n": run.shipped.len(), "sl": sl, "done": run.done, "eff": run.eff, "variant": run.variant})
    }

    fn diff_out(&mut self, act: &Value, exp: &Value, got: &Value) -> Vec<String> {
        let mut d = Vec::new();
        if graph::canon(&exp["ship"]) != graph::canon(&got["ship"]) {
            d.push("ship".to_string());
        }
        if exp["done"] != got["done"] {
            d.push("done".to_string());
        }
        if exp["eff"] != got["eff"] {
            d.push("parent".to_string());
        }
        if exp["panic"] != got["panic"] {
            d.push("panic".to_string());
        }
        if got["chk"].as_array().is_some_and(|a| !a.is_empty()) {
            d.push("chk".to_string());
        }
        let _ = act;
        if d.is_empty() && exp["panic"].as_str().is_some_and(|p| !p.is_empty()) {
            self.panics_reproduced += 1;
            if self.panic_walk.as_ref().is_none_or(|w| w.len() > self.walk.len()) {
                self.panic_walk = Some(self.walk.clone());
            }
        }
        d
    }

    fn diff_obs(&self, exp: &Value, got: &Value) -> Vec<String> {
        let mut d = Vec::new();
        if exp["n"] != got["n"] || exp["sl"] != got["sl"] {
            d.push("slices".to_string());
        }
        if (exp["phase"] == "done") != got["done"].as_bool().unwrap_or(false) {
            d.push("done".to_string());
        }
        if exp["eff"] != got["eff"] {
            d.push("parent".to_string());
        }
        d
    }

    fn act_label(&self, act: &Value) -> String {
        let op = act["op"].as_str().unwrap_or("?");
        if op == "start" {
            return format!("start:{}", act["v"].as_str().unwrap_or("?"));
        }
        format!("{op}:{}:rsv{}", act["v"].as_str().unwrap_or("?"), act["rsv"].as_u64().unwrap_or(0))
    }
}

pub fn run(args: &[String], seed: u64) -> anyhow::Result<Value> {
    let arg = |n: &str| crate::arg_after(args, n);
    let path = arg("--tlc-out").expect("--tlc-out");
    let loop_entry = arg("--entry").is_some_and(|e| e == "loop");
    let db: u32 = arg("--delta-block").and_then(|s| s.parse().ok()).expect("--delta-block");
    let df: u32 = arg("--delta-first").and_then(|s| s.parse().ok()).expect("--delta-first");
    let sample = arg("--sample").and_then(|s| s.parse().ok());
    let budget_s = arg("--budget").and_then(|s| s.parse().ok()).unwrap_or(0);
    let max_div = arg("--max-div").and_then(|s| s.parse().ok()).unwrap_or(200);
    let mut d = ProducerDriver::new(seed, loop_entry, db, df);
    let g = graph::Graph::load(&path)?;
    let opts = graph::ReplayOpts { sample, seed, max_div, budget_s };
    let mut rep = graph::replay(&g, &mut d, &opts).to_json("producer");
    rep["panics_reproduced"] = json!(d.panics_reproduced);
    rep["panic_walk"] = json!(d.panic_walk);
    rep["entry"] = json!(if loop_entry { "loop" } else { "direct" });
    Ok(rep)
}
