//! Replay driver for the leader's block production (spec: Producer.tla / MC_Producer.tla).
//!
//! Every transition of the TLC model is replayed into the REAL `BlockProducer` (through the add-only
//! wrapper `alpenglow::consensus::VerifBlockProducer`) running as a task on tokio's paused clock:
//!   * transactions come from a channel-backed `TransactionNetwork`, one model `tx` step = one
//!     transaction (a `burst` step = n transactions back to back),
//!   * a recording `Disseminator` collects every shred handed out; the shreds of each slice are
//!     validated and de-shredded again with the real `RegularShredder` to read index, last flag,
//!     parent field, payload size and the transactions of the slice,
//!   * a real `BlockstoreImpl` and a real `PoolImpl` (the registration of the block with its parent
//!     is read from the verification event log),
//!   * `--entry direct`: `produce_block_parent_ready` / `produce_block_parent_not_ready` are called
//!     directly and the ParentReady oneshot is owned by the harness;
//!     `--entry loop`: the real `block_production_loop` runs (`wait_for_first_slot` decides between
//!     the two variants from the real pool / blockstore contents) and ParentReady is produced by the
//!     real pool from real certificates.
//! Window model: the loop entry produces all `W` blocks of the window (and the leader's next window where the model
//! says so); `start` establishes the situation `wait_for_first_slot` finds (ParentReady from real certificates, a
//! real block of the previous slot, a real fast-finalization certificate for a later slot with or without the
//! parent chain known = with or without pruning) BEFORE the loop starts.  `loss` of a step makes the recording
//! Disseminator fail for every second / every shred handed to it during that step.
//! One model tick = `TICK` of virtual time (`tokio::time::sleep`); nothing depends on wall-clock time:
//! the code's `std::time::Instant` measurements are ~0 and far below one tick (see Producer.tla, Frozen).
//! After every step the producer task runs until it is idle.  Panics of the task are data.
//! Expectations come from the TLC output only; this file concretises, runs, projects and compares.

use std::collections::{HashMap, VecDeque};
use std::sync::atomic::{AtomicUsize, Ordering};
use std::sync::{Arc, Mutex};
use std::time::Duration;

use alpenglow::consensus::{
    Blockstore, BlockstoreEvent, BlockstoreImpl, Cert, FastFinalCert, NotarCert, NotarVote, Pool,
    PoolEvent, PoolImpl, SharedBlockstore, SharedPool, SkipCert, SkipVote, ValidatedCert,
    VerifBlockProducer,
};
use alpenglow::crypto::merkle::BlockHash;
use alpenglow::network::Network;
use alpenglow::shredder::{RegularShredder, Shred, Shredder, TOTAL_SHREDS, ValidatedShred};
use alpenglow::types::{Slice, SliceIndex, Slot};
use alpenglow::verif::VerifEvent;
use alpenglow::{BlockId, Disseminator, Transaction, ValidatorIndex};
use serde_json::{Value, json};
use tokio::sync::{RwLock, mpsc, oneshot};
use tokio::task::JoinHandle;
use tokio_util::sync::CancellationToken;

use crate::graph::{self, Driver};
use crate::world::{World, hash_bytes};

/// one model tick of virtual time; far above any wall-clock duration a walk can take
const TICK: Duration = Duration::from_secs(1000);
/// first slot of the window under production (window 1) and of the leader's next window (window 4)
const SLOT: u64 = 4;
const NEXT_SLOT: u64 = 16;
const WINDOW: u64 = 4;

fn window_of(slot: u64) -> Option<(&'static str, u64)> {
    if (SLOT..SLOT + WINDOW).contains(&slot) {
        Some(("w1", slot - SLOT))
    } else if (NEXT_SLOT..NEXT_SLOT + WINDOW).contains(&slot) {
        Some(("w4", slot - NEXT_SLOT))
    } else {
        None
    }
}

// ---------------------------------------------------------------- environment of the producer
struct TxNet {
    rx: tokio::sync::Mutex<mpsc::UnboundedReceiver<Transaction>>,
    pending: Arc<AtomicUsize>,
}

impl Network for TxNet {
    type Send = Transaction;
    type Recv = Transaction;

    async fn send(&self, _m: &Transaction, _a: std::net::SocketAddr) -> std::io::Result<()> {
        Ok(())
    }

    async fn send_to_many(
        &self,
        _m: &Transaction,
        _a: impl IntoIterator<Item = std::net::SocketAddr> + Send,
    ) -> std::io::Result<()> {
        Ok(())
    }

    async fn receive(&self) -> std::io::Result<Transaction> {
        let mut rx = self.rx.lock().await;
        match rx.recv().await {
            Some(t) => {
                self.pending.fetch_sub(1, Ordering::SeqCst);
                Ok(t)
            }
            None => std::future::pending().await,
        }
    }
}

#[derive(Default)]
struct RecDissem {
    /// every shred handed to `send`, with the result returned
    shreds: Mutex<Vec<(Shred, bool)>>,
    total: AtomicUsize,
    /// 0: every send succeeds, 1: every second one fails, 2: all fail
    loss: AtomicUsize,
    failed: AtomicUsize,
}

impl Disseminator for RecDissem {
    async fn send(&self, shred: &Shred) -> std::io::Result<()> {
        let n = self.total.fetch_add(1, Ordering::SeqCst);
        let fail = match self.loss.load(Ordering::SeqCst) {
            0 => false,
            1 => n % 2 == 1,
            _ => true,
        };
        self.shreds.lock().unwrap().push((shred.clone(), !fail));
        if fail {
            self.failed.fetch_add(1, Ordering::SeqCst);
            Err(std::io::Error::other("verif: send failed"))
        } else {
            Ok(())
        }
    }

    async fn forward(&self, _shred: &Shred) -> std::io::Result<()> {
        Ok(())
    }

    async fn receive(&self) -> std::io::Result<Shred> {
        std::future::pending().await
    }
}

struct Run {
    tx: mpsc::UnboundedSender<Transaction>,
    pending: Arc<AtomicUsize>,
    dissem: Arc<RecDissem>,
    store: Arc<RwLock<BlockstoreImpl>>,
    pool: SharedPool,
    pr_tx: Option<oneshot::Sender<BlockId>>,
    handle: Option<JoinHandle<anyhow::Result<Option<BlockId>>>>,
    /// shreds taken from the recorder and not yet turned into a slice
    backlog: Vec<(Shred, bool)>,
    /// accepted (per the model) transactions not yet seen in a slice, in sending order
    expected_txs: VecDeque<Vec<u8>>,
    /// transactions seen in the slices of the block in production
    in_slices: Vec<Vec<u8>>,
    /// slices of the block in production
    cur: Vec<Value>,
    /// position (window, k) of the block in production, known from its first slice
    cur_pos: Option<(String, u64)>,
    /// completed blocks: (window, k, parent name, id)
    blocks_done: Vec<(String, u64, String, BlockId)>,
    /// windows for which any slice was ever seen
    windows_seen: Vec<String>,
    returned: Option<BlockId>,
    panicked: bool,
    seq: u64,
    names: HashMap<Vec<u8>, String>,
    blocks: HashMap<String, BlockId>,
    _keep: (mpsc::Receiver<BlockstoreEvent>, mpsc::Receiver<PoolEvent>, mpsc::Receiver<BlockId>),
}

pub struct ProducerDriver {
    world: World,
    rt: tokio::runtime::Runtime,
    seed: u64,
    own: usize,
    loop_entry: bool,
    delta_block: u32,
    delta_first: u32,
    run: Option<Run>,
    /// certificates and the previous leader's block are the same in every walk
    cert_cache: HashMap<(u64, Vec<u8>, u8), ValidatedCert>,
    prev_block: Option<(Vec<ValidatedShred>, BlockHash)>,
    /// actions of the current walk; expected panics the real task reproduced (shortest walk kept)
    walk: Vec<Value>,
    pub panics_reproduced: u64,
    pub panic_walk: Option<Vec<Value>>,
    pub failed_sends: u64,
    pub windows_completed: u64,
    pub windows_skipped: u64,
}

fn slice_index(i: usize) -> SliceIndex {
    serde_json::from_str(&i.to_string()).expect("slice index")
}

fn panic_kind(msg: &str) -> String {
    if msg.contains("shredding of valid slice should never fail") {
        "shred".to_string()
    } else if msg.contains("own block failed reconstruction") {
        "reconstruct".to_string()
    } else if msg.contains("ParentReady sender should not be dropped") {
        "sender".to_string()
    } else {
        format!("other: {msg}")
    }
}

impl ProducerDriver {
    fn new_rt(seed: u64) -> tokio::runtime::Runtime {
        tokio::runtime::Builder::new_current_thread()
            .enable_all()
            .start_paused(true)
            .rng_seed(tokio::runtime::RngSeed::from_bytes(&seed.to_le_bytes()))
            .build()
            .expect("runtime")
    }

    pub fn new(seed: u64, loop_entry: bool, delta_block: u32, delta_first: u32) -> Self {
        let rt = Self::new_rt(seed);
        Self {
            world: World::new(&[1, 1, 1], seed),
            rt,
            seed,
            own: 1, // leader of window 1 (slots 4..7) and of window 4 (slots 16..19)
            loop_entry,
            delta_block,
            delta_first,
            run: None,
            cert_cache: HashMap::new(),
            prev_block: None,
            walk: Vec::new(),
            panics_reproduced: 0,
            panic_walk: None,
            failed_sends: 0,
            windows_completed: 0,
            windows_skipped: 0,
        }
    }

    /// really signed certificate of all validators: kind 0 = notar, 1 = skip, 2 = fast-final
    fn cert(&mut self, kind: u8, slot: Slot, hash: Option<&BlockHash>) -> ValidatedCert {
        let key = (slot.inner(), hash.map(hash_bytes).unwrap_or_default(), kind);
        if let Some(c) = self.cert_cache.get(&key) {
            return c.clone();
        }
        let vals = self.world.epoch.validators().to_vec();
        let idx = |v: usize| ValidatorIndex::new(v as u64);
        let cert = if kind == 1 {
            let votes: Vec<SkipVote> = (0..self.world.n).map(|v| SkipVote::new(slot, &self.world.voting_sks[v], idx(v))).collect();
            Cert::Skip(SkipCert::new(&votes, &[], &vals))
        } else {
            let h = hash.expect("block hash").clone();
            let votes: Vec<NotarVote> = (0..self.world.n).map(|v| NotarVote::new(slot, h.clone(), &self.world.voting_sks[v], idx(v))).collect();
            if kind == 0 { Cert::Notar(NotarCert::new(&votes, &vals)) } else { Cert::FastFinal(FastFinalCert::new(&votes, &vals)) }
        };
        let c = ValidatedCert::try_new(cert, &self.world.epoch).expect("harness cert validates");
        self.cert_cache.insert(key, c.clone());
        c
    }

    /// transaction number `seq` of the walk: unique content of the requested length
    fn tx_bytes(&self, seq: u64, len: usize) -> Vec<u8> {
        let mut st = self.seed ^ seq.wrapping_mul(0x9E37_79B9_7F4A_7C15) ^ 0x50D0;
        let mut v: Vec<u8> = (0..len)
            .map(|_| {
                st ^= st << 13;
                st ^= st >> 7;
                st ^= st << 17;
                (st >> 24) as u8
            })
            .collect();
        for (i, b) in seq.to_le_bytes().iter().enumerate() {
            if i < v.len() {
                v[i] = *b;
            }
        }
        v
    }

    /// establishes situation `c` (codes of Producer!OnStart) in a fresh pool / blockstore and starts the producer
    fn start(&mut self, c: &str) -> Result<(), String> {
        let _ = alpenglow::verif::drain();
        let (has_pr, has_blk) = (matches!(c, "pr" | "pr+fin" | "pr+finP"), matches!(c, "blk" | "blk+fin" | "blk+finP"));
        let (has_fin, pruned) = (c.contains("fin"), c.ends_with("finP"));
        if !has_pr && !has_blk && !has_fin {
            return Err(format!("harness: unknown start situation {c}"));
        }
        if !self.loop_entry && has_fin {
            return Err("harness: the direct entry has no wait_for_first_slot".into());
        }
        let own = self.own;
        let vepoch = self.world.validator_epoch(own);
        let (etx, erx) = mpsc::channel(1 << 16);
        let mut store = BlockstoreImpl::new(etx);
        let (ptx, prx) = mpsc::channel(1 << 16);
        let (rtx, rrx) = mpsc::channel(1 << 16);
        let mut pool_impl = PoolImpl::new(vepoch.clone(), ptx, rtx);

        // the blocks the model names
        let mut blocks: HashMap<String, BlockId> = HashMap::new();
        let prev = Slot::new(SLOT - 1);
        let b2: BlockId = (Slot::new(SLOT - 2), self.world.hash("C"));
        let mut a_id: BlockId = (prev, self.world.hash("A"));
        blocks.insert("B".into(), (prev, self.world.hash("B")));
        blocks.insert("C".into(), b2.clone());
        let f_id: BlockId = (Slot::new(NEXT_SLOT - 1), self.world.hash("F"));
        blocks.insert("F".into(), f_id.clone());
        if self.loop_entry && has_blk {
            // the blockstore holds a disseminated block for the previous slot
            if self.prev_block.is_none() {
                let slice = Slice {
                    slot: prev,
                    slice_index: slice_index(0),
                    is_last: true,
                    parent: Some(b2.clone()),
                    data: 0u64.to_le_bytes().to_vec(),
                };
                let shreds = RegularShredder::default().shred(&slice, &self.world.sks[0]).map_err(|e| format!("harness: {e:?}"))?;
                let (ttx, _trx) = mpsc::channel(256);
                let mut tmp = BlockstoreImpl::new(ttx);
                let mut h = None;
                for s in shreds.iter().cloned() {
                    if let Ok(Some(bi)) = futures::executor::block_on(tmp.add_shred_from_dissemination(s)) {
                        h = Some(bi.verif_hash().clone());
                    }
                }
                self.prev_block = Some((shreds.to_vec(), h.ok_or("harness: previous block did not reconstruct")?));
            }
            let (shreds, h) = self.prev_block.clone().unwrap();
            for s in shreds {
                let _ = futures::executor::block_on(store.add_shred_from_dissemination(s));
            }
            a_id = (prev, h);
        }
        blocks.insert("A".into(), a_id.clone());
        if self.loop_entry && has_pr {
            // the pool emitted ParentReady(4, A)
            let cert = self.cert(0, a_id.0, Some(&a_id.1));
            futures::executor::block_on(pool_impl.add_cert(cert)).map_err(|e| format!("harness: {e:?}"))?;
        }
        if has_fin {
            // a slot beyond the window is finalized; with the parent chain known the pool prunes the window
            let ff = self.cert(2, f_id.0, Some(&f_id.1));
            let b1: BlockId = (Slot::new(1), self.world.hash("b1"));
            let g: BlockId = (Slot::genesis(), alpenglow::crypto::merkle::GENESIS_BLOCK_HASH);
            let (a2, bb2, f2) = (a_id.clone(), b2.clone(), f_id.clone());
            futures::executor::block_on(async {
                if pruned {
                    for (b, p) in [(b1.clone(), g), (bb2.clone(), b1), (a2.clone(), bb2), (f2, a2)] {
                        pool_impl.add_block(b, p).await;
                    }
                }
                pool_impl.add_cert(ff).await
            })
            .map_err(|e| format!("harness: {e:?}"))?;
            let root = pool_impl.verif_first_unpruned_slot().inner();
            if pruned != (root > SLOT) {
                return Err(format!("harness: pruning watermark {root} does not fit situation {c}"));
            }
        }
        let _ = alpenglow::verif::drain(); // registrations made by the set-up itself
        let mut names = HashMap::new();
        for (n, b) in &blocks {
            names.insert(hash_bytes(&b.1), n.clone());
        }

        let store = Arc::new(RwLock::new(store));
        let blockstore: SharedBlockstore = store.clone();
        let pool: SharedPool = Arc::new(RwLock::new(pool_impl));
        let (tx, rx) = mpsc::unbounded_channel();
        let pending = Arc::new(AtomicUsize::new(0));
        let net = TxNet { rx: tokio::sync::Mutex::new(rx), pending: pending.clone() };
        let dissem = Arc::new(RecDissem::default());
        let producer = VerifBlockProducer::new(
            self.world.sks[own].clone(),
            vepoch,
            dissem.clone(),
            net,
            blockstore,
            pool.clone(),
            CancellationToken::new(),
            TICK * self.delta_block,
            TICK * self.delta_first,
        );
        let slot = Slot::new(SLOT);
        let mut pr_tx = None;
        let handle = if self.loop_entry {
            self.rt.spawn(async move { producer.block_production_loop().await.map(|()| None) })
        } else if has_pr {
            self.rt.spawn(async move { producer.produce_block_parent_ready(slot, a_id).await.map(Some) })
        } else {
            let (s, r) = oneshot::channel();
            pr_tx = Some(s);
            self.rt.spawn(async move { producer.produce_block_parent_not_ready(slot, a_id, r).await.map(Some) })
        };
        self.run = Some(Run {
            tx,
            pending,
            dissem,
            store,
            pool,
            pr_tx,
            handle: Some(handle),
            backlog: Vec::new(),
            expected_txs: VecDeque::new(),
            in_slices: Vec::new(),
            cur: Vec::new(),
            cur_pos: None,
            blocks_done: Vec::new(),
            windows_seen: Vec::new(),
            returned: None,
            panicked: false,
            seq: 0,
            names,
            blocks,
            _keep: (erx, prx, rrx),
        });
        Ok(())
    }

    /// lets the producer task run until it waits for the environment again
    fn quiesce(&mut self) {
        let run = self.run.as_ref().expect("run");
        let pending = run.pending.clone();
        self.rt.block_on(async {
            for _ in 0..4096 {
                for _ in 0..8 {
                    tokio::task::yield_now().await;
                }
                if pending.load(Ordering::SeqCst) == 0 {
                    break;
                }
            }
            for _ in 0..8 {
                tokio::task::yield_now().await;
            }
        });
    }

    fn signature(&self) -> (usize, bool) {
        let run = self.run.as_ref().expect("run");
        (run.dissem.total.load(Ordering::SeqCst), run.handle.as_ref().is_none_or(JoinHandle::is_finished))
    }

    /// name of a parent as the model calls it: one of the named blocks or the block just produced in the window
    fn parent_name(run: &Run, w: &str, b: &BlockId) -> String {
        if let Some((_, k, _, _)) = run.blocks_done.iter().find(|(bw, _, _, id)| bw == w && id == b) {
            return format!("K{k}");
        }
        run.names.get(&hash_bytes(&b.1)).filter(|n| run.blocks[*n].0 == b.0).cloned().unwrap_or_else(|| format!("?{}", b.0.inner()))
    }

    /// everything the producer did since the last call, in the shape of the model's step output
    fn collect(&mut self) -> Value {
        let mut chk: Vec<String> = Vec::new();
        self.quiesce();
        // idle means idle: further scheduler rounds change nothing
        let before = self.signature();
        self.rt.block_on(async {
            for _ in 0..16 {
                tokio::task::yield_now().await;
            }
        });
        if self.signature() != before {
            chk.push("harness: producer task not idle after the step".into());
        }
        let pk = self.world.sks[self.own].to_pk();
        let mut panic = String::new();
        let mut ship = Vec::new();
        let (mut out_w, mut out_k) = (String::new(), 0u64);
        let run = self.run.as_mut().expect("run");

        // new slices, from the shreds handed to the disseminator (64 per slice, in order)
        let fresh = std::mem::take(&mut *run.dissem.shreds.lock().unwrap());
        run.backlog.extend(fresh);
        while run.backlog.len() >= TOTAL_SHREDS {
            let group: Vec<(Shred, bool)> = run.backlog.drain(..TOTAL_SHREDS).collect();
            let sent = group.iter().filter(|(_, ok)| *ok).count();
            let mut arr: [Option<ValidatedShred>; TOTAL_SHREDS] = [const { None }; TOTAL_SHREDS];
            let mut commitment = None;
            for (i, (s, _)) in group.iter().enumerate() {
                match ValidatedShred::try_new(s.clone(), commitment.as_ref(), &pk) {
                    Ok(v) => {
                        commitment = Some(v.commitment());
                        arr[i] = Some(v);
                    }
                    Err(e) => chk.push(format!("shred {i} of a slice does not validate: {e:?}")),
                }
            }
            match RegularShredder::default().deshred(&mut arr) {
                Ok(slice) => {
                    let Some((w, k)) = window_of(slice.slot.inner()) else {
                        chk.push(format!("slice for slot {} outside the modelled windows", slice.slot.inner()));
                        continue;
                    };
                    if !run.windows_seen.iter().any(|x| x == w) {
                        run.windows_seen.push(w.to_string());
                    }
                    match &run.cur_pos {
                        None => run.cur_pos = Some((w.to_string(), k)),
                        Some((cw, ck)) if cw == w && *ck == k => {}
                        Some(_) => chk.push("slice of another block while a block is in production".into()),
                    }
                    let par = match &slice.parent {
                        None => "none".to_string(),
                        Some(b) => Self::parent_name(run, w, b),
                    };
                    let size = wincode::serialize(&(slice.parent.clone(), slice.data.clone())).map(|b| b.len()).unwrap_or(0);
                    let txs: Vec<Transaction> = wincode::deserialize(&slice.data).unwrap_or_else(|_| {
                        chk.push("slice data does not decode into transactions".into());
                        Vec::new()
                    });
                    for t in &txs {
                        // the transactions of the slices are the accepted ones, each once, in the order sent
                        match run.expected_txs.pop_front() {
                            Some(e) if e == t.0 => {}
                            _ => chk.push("transactions in the slice differ from the accepted ones".into()),
                        }
                        run.in_slices.push(t.0.clone());
                    }
                    let idx: usize = serde_json::to_value(slice.slice_index).ok().and_then(|v| v.as_u64()).unwrap_or(9999) as usize;
                    // stored locally whatever the disseminator said: all 64 shreds of the slice are in the blockstore
                    let held = futures::executor::block_on(async { run.store.read().await.verif_held(slice.slot) });
                    if !held.iter().any(|(i, h)| *i == idx && h.len() == TOTAL_SHREDS) {
                        chk.push(format!("slice {idx} of slot {} is not completely in the blockstore", slice.slot.inner()));
                    }
                    let v = json!({"idx": idx, "last": slice.is_last, "par": par, "size": size, "ntx": txs.len(), "sent": sent});
                    run.cur.push(v.clone());
                    ship.push(v);
                    out_w = w.to_string();
                    out_k = k;
                }
                Err(e) => chk.push(format!("slice does not deshred: {e:?}")),
            }
        }
        if !run.backlog.is_empty() {
            chk.push("a slice was disseminated only partially".into());
        }

        // task outcome
        if run.handle.as_ref().is_some_and(JoinHandle::is_finished) {
            let h = run.handle.take().unwrap();
            match self.rt.block_on(h) {
                Ok(Ok(Some(b))) => run.returned = Some(b),
                Ok(Ok(None)) => chk.push("block production loop returned".into()),
                Ok(Err(e)) => chk.push(format!("producer returned an error: {e}")),
                Err(e) if e.is_panic() => {
                    let p = e.into_panic();
                    let msg = p.downcast_ref::<&str>().map(|s| (*s).to_string())
                        .or_else(|| p.downcast_ref::<String>().cloned()).unwrap_or_else(|| "panic".into());
                    panic = panic_kind(&msg);
                    run.panicked = true;
                }
                Err(e) => chk.push(format!("producer task failed: {e}")),
            }
        }

        // completion of a block: Pool::add_block (event log), the blockstore's block, the returned id
        let (mut done_now, mut eff) = (false, String::new());
        for ev in alpenglow::verif::drain() {
            let VerifEvent::Block { block, parent, node } = ev else { continue };
            if node.inner() as usize != self.own {
                continue;
            }
            let Some((w, k)) = window_of(block.0.inner()) else {
                chk.push(format!("block registered for slot {} outside the modelled windows", block.0.inner()));
                continue;
            };
            if done_now {
                chk.push("two blocks registered in one step".into());
            }
            if run.blocks_done.iter().any(|(bw, bk, _, _)| bw == w && *bk == k) {
                chk.push("block registered twice".into());
            }
            if run.cur_pos.as_ref().is_none_or(|(cw, ck)| cw != w || *ck != k) {
                chk.push("registered block is not the one in production".into());
            }
            done_now = true;
            eff = Self::parent_name(run, w, &parent);
            out_w = w.to_string();
            out_k = k;
            let got = futures::executor::block_on(async {
                let g = run.store.read().await;
                g.get_block(&block).map(|b| (b.verif_parent(), b.verif_transactions().iter().map(|t| t.0.clone()).collect::<Vec<_>>()))
            });
            match got {
                Some((p, txs)) => {
                    if p != parent {
                        chk.push("blockstore and pool disagree on the parent".into());
                    }
                    if txs != run.in_slices {
                        chk.push("block content differs from the slices".into());
                    }
                    if !run.expected_txs.is_empty() {
                        chk.push("accepted transactions missing from the block".into());
                    }
                }
                None => chk.push("completed block not in the blockstore".into()),
            }
            if let Some(r) = &run.returned
                && *r != block
            {
                chk.push("returned block id differs from the registered one".into());
            }
            run.blocks_done.push((w.to_string(), k, eff.clone(), block));
            run.cur.clear();
            run.cur_pos = None;
            run.in_slices.clear();
            if k + 1 == WINDOW {
                self.windows_completed += 1;
            }
        }
        if !self.loop_entry && run.returned.is_some() != !run.blocks_done.is_empty() {
            chk.push("return of produce_block and registration with the pool disagree".into());
        }

        json!({"ship": ship, "done": done_now, "eff": eff, "panic": panic, "w": out_w, "k": out_k, "chk": chk})
    }

    fn send_tx(&mut self, len: usize, accepted: bool) {
        let seq = self.run.as_ref().unwrap().seq;
        let bytes = self.tx_bytes(seq, len);
        let run = self.run.as_mut().unwrap();
        run.seq += 1;
        if accepted {
            run.expected_txs.push_back(bytes.clone());
        }
        run.pending.fetch_add(1, Ordering::SeqCst);
        let _ = run.tx.send(Transaction(bytes));
    }

    fn add_certs(&mut self, certs: Vec<ValidatedCert>) -> Result<(), String> {
        let pool = self.run.as_ref().unwrap().pool.clone();
        self.rt.block_on(async {
            for c in certs {
                pool.write().await.add_cert(c).await.map_err(|e| format!("harness: {e:?}"))?;
            }
            Ok(())
        })
    }
}

impl Driver for ProducerDriver {
    fn reset(&mut self) {
        if let Some(mut r) = self.run.take() {
            self.failed_sends += r.dissem.failed.load(Ordering::SeqCst) as u64;
            if let Some(h) = r.handle.take() {
                h.abort();
                let _ = self.rt.block_on(h);
            }
            drop(r);
            // a fresh runtime per walk: wait_for_first_slot leaves a detached 1 ms poller behind whenever its
            // other select branch wins; it must not live on (and spin through the ticks of) later walks
            self.rt = Self::new_rt(self.seed);
        }
        let _ = alpenglow::verif::drain();
        self.walk.clear();
    }

    fn step(&mut self, act: &Value) -> Value {
        self.walk.push(act.clone());
        let op = act["op"].as_str().unwrap_or("");
        let err = |m: String| json!({"ship": [], "done": false, "eff": "", "panic": "", "w": "", "k": 0, "chk": [m]});
        if op == "start" {
            let c = act["c"].as_str().unwrap_or("").to_string();
            if let Err(e) = self.start(&c) {
                return err(e);
            }
            return self.collect();
        }
        let Some(run) = self.run.as_ref() else { return err("harness: step before start".into()) };
        // behaviour of the Disseminator for whatever is handed out during this step
        let loss = match act["loss"].as_str().unwrap_or("none") {
            "none" => 0,
            "odd" => 1,
            _ => 2,
        };
        run.dissem.loss.store(loss, Ordering::SeqCst);
        match op {
            "tx" => {
                let len = act["len"].as_u64().unwrap_or(0) as usize;
                // which transactions are taken into the block is the model's statement (`acc` of the action)
                self.send_tx(len, act["acc"].as_u64().unwrap_or(0) >= 1);
                self.collect()
            }
            "burst" => {
                let len = act["len"].as_u64().unwrap_or(0) as usize;
                let n = act["n"].as_u64().unwrap_or(0);
                let acc = act["acc"].as_u64().unwrap_or(0);
                for k in 0..n {
                    self.send_tx(len, k < acc);
                }
                self.collect()
            }
            "tick" => {
                self.rt.block_on(async { tokio::time::sleep(TICK).await });
                self.collect()
            }
            "pr" => {
                let name = act["b"].as_str().unwrap_or("").to_string();
                let b = self.run.as_ref().unwrap().blocks.get(&name).cloned();
                let Some(b) = b else { return err(format!("harness: unknown block {name}")) };
                if self.loop_entry {
                    // the real pool emits ParentReady(4, b) from certificates
                    let mut certs = vec![self.cert(0, b.0, Some(&b.1))];
                    if b.0.inner() + 1 < SLOT {
                        certs.push(self.cert(1, Slot::new(SLOT - 1), None));
                    }
                    if let Err(e) = self.add_certs(certs) {
                        return err(e);
                    }
                } else {
                    match self.run.as_mut().unwrap().pr_tx.take() {
                        Some(s) => {
                            let _ = s.send(b);
                        }
                        None => return err("harness: ParentReady sent twice".into()),
                    }
                }
                self.collect()
            }
            "finalize" => {
                // a further finalization reaches the pool (fast-finalization certificate of a later slot)
                let z = (Slot::new(NEXT_SLOT + WINDOW - 1), self.world.hash("Z"));
                let c = self.cert(2, z.0, Some(&z.1));
                if let Err(e) = self.add_certs(vec![c]) {
                    return err(e);
                }
                self.collect()
            }
            o => err(format!("harness: unknown op {o}")),
        }
    }

    fn obs(&mut self) -> Value {
        let Some(run) = self.run.as_ref() else {
            return json!({"n": 0, "sl": [], "blocks": [], "seen": []});
        };
        let sl: Vec<Value> = run.cur.iter().map(|s| json!({"idx": s["idx"], "last": s["last"], "par": s["par"]})).collect();
        let blocks: Vec<Value> = run.blocks_done.iter().map(|(w, k, p, _)| json!({"w": w, "k": k, "par": p})).collect();
        json!({"n": run.cur.len(), "sl": sl, "blocks": blocks, "seen": run.windows_seen})
    }

    fn diff_out(&mut self, act: &Value, exp: &Value, got: &Value) -> Vec<String> {
        let mut d = Vec::new();
        if graph::canon(&exp["ship"]) != graph::canon(&got["ship"]) {
            // the number of shreds that left the node is the disseminator's business; everything else the producer's
            let strip = |v: &Value| -> Value {
                Value::Array(v.as_array().cloned().unwrap_or_default().into_iter().map(|mut s| {
                    s.as_object_mut().map(|o| o.remove("sent"));
                    s
                }).collect())
            };
            d.push(if strip(&exp["ship"]) == strip(&got["ship"]) { "sent".to_string() } else { "ship".to_string() });
        }
        if exp["done"] != got["done"] {
            d.push("done".to_string());
        }
        if exp["eff"] != got["eff"] {
            d.push("parent".to_string());
        }
        if exp["panic"] != got["panic"] {
            d.push("panic".to_string());
        }
        let has_pos = got["ship"].as_array().is_some_and(|a| !a.is_empty()) || got["done"] == true;
        if has_pos && d.is_empty() && (exp["w"] != got["w"] || exp["k"] != got["k"]) {
            d.push("slot".to_string());
        }
        if got["chk"].as_array().is_some_and(|a| !a.is_empty()) {
            d.push("chk".to_string());
        }
        if d.is_empty() && exp["skip"] == true {
            self.windows_skipped += 1;
        }
        let _ = act;
        if d.is_empty() && exp["panic"].as_str().is_some_and(|p| !p.is_empty()) {
            self.panics_reproduced += 1;
            if self.panic_walk.as_ref().is_none_or(|w| w.len() > self.walk.len()) {
                self.panic_walk = Some(self.walk.clone());
            }
        }
        d
    }

    fn diff_obs(&self, exp: &Value, got: &Value) -> Vec<String> {
        let mut d = Vec::new();
        if exp["blocks"] != got["blocks"] {
            d.push("blocks".to_string());
        }
        // the terminal state of the model keeps the slices of the last block; the harness forgets them on completion
        if exp["phase"] != "done" && (exp["n"] != got["n"] || exp["sl"] != got["sl"]) {
            d.push("slices".to_string());
        }
        // nothing is ever produced for a skipped window
        let seen = got["seen"].as_array().cloned().unwrap_or_default();
        if exp["skipped"].as_array().is_some_and(|s| s.iter().any(|w| seen.contains(w))) {
            d.push("skipped".to_string());
        }
        d
    }

    fn act_label(&self, act: &Value) -> String {
        let op = act["op"].as_str().unwrap_or("?");
        if op == "start" {
            return format!("start:{}", act["c"].as_str().unwrap_or("?"));
        }
        let later = if act["w"] == "w1" && act["k"] == 0 { "" } else { ":later" };
        // a run that started with the previous block AND a later finalization present
        let c = act["c"].as_str().unwrap_or("");
        let race = if c.starts_with("blk+") { ":blk+fin" } else { "" };
        format!("{op}:{}:rsv{}{later}{race}", act["v"].as_str().unwrap_or("?"), act["rsv"].as_u64().unwrap_or(0))
    }
}

pub fn run(args: &[String], seed: u64) -> anyhow::Result<Value> {
    let arg = |n: &str| crate::arg_after(args, n);
    let path = arg("--tlc-out").expect("--tlc-out");
    let loop_entry = arg("--entry").is_some_and(|e| e == "loop");
    let db: u32 = arg("--delta-block").and_then(|s| s.parse().ok()).expect("--delta-block");
    let df: u32 = arg("--delta-first").and_then(|s| s.parse().ok()).expect("--delta-first");
    let sample = arg("--sample").and_then(|s| s.parse().ok());
    let budget_s = arg("--budget").and_then(|s| s.parse().ok()).unwrap_or(0);
    let max_div = arg("--max-div").and_then(|s| s.parse().ok()).unwrap_or(200);
    let mut d = ProducerDriver::new(seed, loop_entry, db, df);
    let g = graph::Graph::load(&path)?;
    let opts = graph::ReplayOpts { sample, seed, max_div, budget_s };
    let mut rep = graph::replay(&g, &mut d, &opts).to_json("producer");
    d.reset();
    rep["panics_reproduced"] = json!(d.panics_reproduced);
    rep["panic_walk"] = json!(d.panic_walk);
    rep["failed_sends"] = json!(d.failed_sends);
    rep["windows_completed"] = json!(d.windows_completed);
    rep["windows_skipped"] = json!(d.windows_skipped);
    rep["entry"] = json!(if loop_entry { "loop" } else { "direct" });
    Ok(rep)
}
