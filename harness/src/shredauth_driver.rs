//! C12 — shred authentication (spec: ShredAuth.tla / MC_ShredAuth.tla).
//!
//! `CASE` lines: one wire shred described piece by piece (tag, header, index, payload, every proof
//! element, signature), the commitment cached for its (slot, slice) if any, and the verdict the
//! specification demands.  The driver builds the real bytes from real material (slices shredded by
//! the real `RegularShredder` under real keys), decodes them with the node's decoder and compares
//! `ValidatedShred::try_new`.
//! `SEQ` lines: sequences of such shreds through a real `BlockstoreImpl`
//! (`cached_commitment` -> `try_new` -> `add_shred_from_dissemination`), comparing verdict, return
//! class, emitted `BlockstoreEvent`s and whether the leader has been reported (InvalidBlock).
//! Every expectation comes from the TLC output; this file concretises, runs, projects, compares.

use std::collections::HashMap;
use std::panic::{AssertUnwindSafe, catch_unwind};

use alpenglow::consensus::{AddShredError, Blockstore, BlockstoreEvent, BlockstoreImpl};
use alpenglow::crypto::merkle::{BlockHash, PlainMerkleTree, SliceRoot};
use alpenglow::crypto::signature::{PublicKey, SecretKey};
use alpenglow::network::deserialize;
use alpenglow::shredder::{
    RegularShredder, Shred, ShredValidationError, Shredder, SliceCommitment, TOTAL_SHREDS, ValidatedShred,
};
use alpenglow::types::{Slice, SliceIndex, Slot};
use alpenglow::{BlockId, Transaction};
use rand::rngs::StdRng;
use rand::{Rng, SeedableRng};
use serde_json::{Value, json};
use tokio::sync::mpsc;
use wincode::{SchemaRead, SchemaWrite};

use crate::cases::{CaseReport, load_tagged};

// ---------------------------------------------------------------- wire mirror of `Shred`
#[derive(SchemaRead, SchemaWrite, Clone)]
struct WHeader {
    slot: u64,
    slice_index: u64,
    is_last: bool,
}
#[derive(SchemaRead, SchemaWrite, Clone)]
struct WPayload {
    header: WHeader,
    shred_index: u64,
    data: Vec<u8>,
}
#[derive(SchemaRead, SchemaWrite, Clone)]
enum WType {
    Data(WPayload),
    Coding(WPayload),
}
#[derive(SchemaRead, SchemaWrite, Clone)]
struct WShred {
    payload_type: WType,
    slice_sig: [u8; 64],
    merkle_path: Vec<[u8; 32]>,
}

impl WShred {
    fn payload(&self) -> &WPayload {
        match &self.payload_type {
            WType::Data(p) | WType::Coding(p) => p,
        }
    }
}

fn mirror(s: &ValidatedShred) -> WShred {
    let bytes = wincode::serialize(s.as_shred()).expect("serialize shred");
    wincode::deserialize(&bytes).expect("harness wire mirror of Shred is out of date")
}

// ---------------------------------------------------------------- concrete material
/// A real slice shredded under a real key.
struct Shredded {
    wire: Vec<WShred>,
    commitment: SliceCommitment,
    root: SliceRoot,
}

struct World {
    sk_l: SecretKey,
    sk_x: SecretKey,
    pk_l: PublicKey,
    shredder: RegularShredder,
    content_data: HashMap<String, (Option<BlockId>, Vec<u8>)>,
    shredded: HashMap<String, Shredded>,
    empty_roots: Vec<[u8; 32]>,
    seed: u64,
}

fn slice_index(i: u64) -> SliceIndex {
    serde_json::from_str(&i.to_string()).expect("slice index")
}

fn hash_arr(h: &alpenglow::crypto::Hash) -> [u8; 32] {
    let r: &[u8] = h.as_ref();
    r.try_into().expect("32-byte hash")
}

impl World {
    fn new(seed: u64) -> Self {
        let mut rng = StdRng::seed_from_u64(seed ^ 0xC12_5EED);
        let sk_l = SecretKey::new(&mut rng);
        let sk_x = SecretKey::new(&mut rng);
        // E(0) = root of the one-leaf tree over the empty leaf; E(k+1) = pair(E(k), E(k))
        let mut empty = vec![PlainMerkleTree::new(&[Vec::<u8>::new()]).get_root()];
        for k in 1..=8 {
            let path: Vec<alpenglow::crypto::Hash> = empty[..k].to_vec();
            empty.push(PlainMerkleTree::derive_root(&Vec::<u8>::new(), 0, &path));
        }
        Self {
            pk_l: sk_l.to_pk(),
            sk_l,
            sk_x,
            shredder: RegularShredder::default(),
            content_data: HashMap::new(),
            shredded: HashMap::new(),
            empty_roots: empty.iter().map(hash_arr).collect(),
            seed,
        }
    }

    /// Payload of a slice content: (parent, data).  "A", "B" carry a parent (first slices),
    /// "C", "D" do not (later slices); all four decode to transactions.  "Z" is a slice of zeros
    /// (its inner data shards are byte-identical).
    fn content(&mut self, c: &str) -> (Option<BlockId>, Vec<u8>) {
        if let Some(x) = self.content_data.get(c) {
            return x.clone();
        }
        let tag = c.bytes().next().unwrap_or(b'?') as u64;
        let mut rng = StdRng::seed_from_u64(self.seed ^ (0xC0_7E47 + tag * 7919));
        let v = match c {
            "Z" => (None, vec![0u8; 4000]),
            _ => {
                let txs: Vec<Vec<u8>> = (0..24)
                    .map(|_| {
                        let mut b = vec![0u8; 400];
                        rng.fill_bytes(&mut b);
                        wincode::serialize(&Transaction(b)).expect("tx")
                    })
                    .collect();
                let data = wincode::serialize(&txs).expect("txs");
                let parent = if c == "A" || c == "B" {
                    let h: BlockHash = alpenglow::crypto::hash::hash(format!("verif-c12-parent-{c}").as_bytes()).into();
                    Some((Slot::new(2), h))
                } else {
                    None
                };
                (parent, data)
            }
        };
        self.content_data.insert(c.to_string(), v.clone());
        v
    }

    /// The 64 shreds key `by` produces for slice `sl` = {slot, slice, isLast, content}.
    fn shredded(&mut self, sl: &Value, by: &str) -> &Shredded {
        let key = format!("{by}/{sl}");
        if !self.shredded.contains_key(&key) {
            let (parent, data) = self.content(sl["content"].as_str().expect("content"));
            let slice = Slice {
                slot: Slot::new(sl["slot"].as_u64().expect("slot")),
                slice_index: slice_index(sl["slice"].as_u64().expect("slice")),
                is_last: sl["isLast"].as_bool().expect("isLast"),
                parent,
                data,
            };
            let sk = if by == "L" { &self.sk_l } else { &self.sk_x };
            let validated: Vec<ValidatedShred> = self.shredder.shred(&slice, sk).expect("shred").into_iter().collect();
            let wire: Vec<WShred> = validated.iter().map(mirror).collect();
            let commitment = validated[0].commitment();
            let root = validated[0].slice_root().clone();
            self.shredded.insert(key.clone(), Shredded { wire, commitment, root });
        }
        &self.shredded[&key]
    }

    /// shards and paths depend on the content only
    fn of_content(&mut self, c: &str) -> &Shredded {
        let sl = json!({"slot": 5, "slice": 1, "isLast": false, "content": c});
        self.shredded(&sl, "L")
    }

    fn junk_hash(n: u64) -> [u8; 32] {
        hash_arr(&alpenglow::crypto::hash(format!("verif-c12-junk-{n}").as_bytes()))
    }

    /// Bytes of the wire shred a descriptor denotes.
    fn build(&mut self, w: &Value) -> Vec<u8> {
        let data = match w["payload"].get("junk").and_then(Value::as_u64) {
            Some(n) => {
                let len = self.of_content("A").wire[0].payload().data.len();
                let mut rng = StdRng::seed_from_u64(0x7A9C ^ n);
                let mut b = vec![0u8; len];
                rng.fill_bytes(&mut b);
                b
            }
            None => {
                let i = w["payload"]["i"].as_u64().expect("payload.i") as usize;
                self.of_content(w["payload"]["c"].as_str().expect("payload.c")).wire[i].payload().data.clone()
            }
        };
        let proof: Vec<[u8; 32]> = if let Some(p) = w["proof"].get("path") {
            let i = p["i"].as_u64().expect("path.i") as usize;
            self.of_content(p["c"].as_str().expect("path.c")).wire[i].merkle_path.clone()
        } else {
            w["proof"]["elems"]
                .as_array()
                .expect("proof.elems")
                .iter()
                .map(|e| {
                    if let Some(n) = e.get("junk").and_then(Value::as_u64) {
                        Self::junk_hash(n)
                    } else if let Some(h) = e.get("empty").and_then(Value::as_u64) {
                        self.empty_roots[h as usize]
                    } else {
                        let i = e["i"].as_u64().expect("elem.i") as usize;
                        let k = e["k"].as_u64().expect("elem.k") as usize;
                        self.of_content(e["c"].as_str().expect("elem.c")).wire[i].merkle_path[k - 1]
                    }
                })
                .collect()
        };
        let sig: [u8; 64] = match w["sig"]["by"].as_str().expect("sig.by") {
            "nobody" => [0x5A; 64],
            by => {
                let over = w["sig"]["over"].clone();
                self.shredded(&over, by).wire[0].slice_sig
            }
        };
        let payload = WPayload {
            header: WHeader {
                slot: w["slot"].as_u64().expect("slot"),
                slice_index: w["slice"].as_u64().expect("slice"),
                is_last: w["isLast"].as_bool().expect("isLast"),
            },
            shred_index: w["index"].as_u64().expect("index"),
            data,
        };
        let tag = w["tag"].as_str().expect("tag");
        let payload_type = if tag == "coding" { WType::Coding(payload) } else { WType::Data(payload) };
        let mut bytes = wincode::serialize(&WShred { payload_type, slice_sig: sig, merkle_path: proof }).expect("serialize");
        if tag == "invalid" {
            bytes[0] = 7; // enum tag (u32 LE) outside {0 = Data, 1 = Coding}
        }
        bytes
    }

    /// The model's byte-equality pattern of shards must hold for the real shards.
    fn check_meta(&mut self, meta: &Value) -> anyhow::Result<()> {
        anyhow::ensure!(meta["total"].as_u64() == Some(TOTAL_SHREDS as u64), "model Total != TOTAL_SHREDS");
        let mut all: Vec<(String, Vec<u8>)> = vec![];
        for (c, names) in meta["shards"].as_object().expect("meta.shards") {
            let real = self.of_content(c);
            anyhow::ensure!(real.wire.iter().enumerate().all(|(i, w)| w.payload().shred_index as usize == i
                && matches!(w.payload_type, WType::Data(_)) == (i < meta["data"].as_u64().unwrap() as usize)),
                "real shreds are not laid out data-first by index");
            anyhow::ensure!(real.wire.iter().all(|w| w.merkle_path.len() as u64 == meta["h"].as_u64().unwrap()), "path length != H");
            for (i, n) in names.as_array().expect("names").iter().enumerate() {
                all.push((n.as_str().unwrap().to_string(), real.wire[i].payload().data.clone()));
            }
        }
        for a in 0..all.len() {
            for b in (a + 1)..all.len() {
                anyhow::ensure!((all[a].0 == all[b].0) == (all[a].1 == all[b].1),
                    "concretisation: shards {} / {} (entries {a}, {b}) do not reproduce the model's equality pattern", all[a].0, all[b].0);
            }
        }
        Ok(())
    }
}

fn is_none(v: &Value) -> bool {
    v.get("none").is_some()
}

fn verdict_of(r: &Result<ValidatedShred, ShredValidationError>) -> &'static str {
    match r {
        Ok(_) => "Ok",
        Err(ShredValidationError::InvalidSignature) => "InvalidSignature",
        Err(ShredValidationError::Equivocation) => "Equivocation",
    }
}

// ---------------------------------------------------------------- CASE replay
fn run_case(world: &mut World, rep: &mut CaseReport, case: &Value) {
    let w = &case["w"];
    let exp = &case["exp"];
    let scn = case["scn"].as_str().unwrap_or("?");
    let m = case["m"].as_str().unwrap_or("?");
    let rel = case["cacheRel"].as_str().unwrap_or("?");
    let label = format!("{scn}:{m}:{}", exp["verdict"].as_str().unwrap_or("?"));
    rep.case(&label, json!([scn, case["i"], m, w, case["cache"]]).to_string(), case);

    let bytes = world.build(w);
    let cached: Option<SliceCommitment> =
        if is_none(&case["cache"]) { None } else { Some(world.shredded(&case["cache"], "L").commitment) };
    let want_commit: Option<(SliceCommitment, SliceRoot)> = if is_none(&exp["commit"]) {
        None
    } else {
        let s = world.shredded(&exp["commit"], "L");
        Some((s.commitment, s.root.clone()))
    };
    let sig_root: Option<SliceRoot> =
        if is_none(&w["sig"]["over"]) { None } else { Some(world.of_content(w["sig"]["over"]["content"].as_str().unwrap()).root.clone()) };
    let pk = world.pk_l;

    let res = catch_unwind(AssertUnwindSafe(|| {
        let shred: Shred = match deserialize::<Shred>(&bytes) {
            Ok(s) => s,
            Err(_) => return ("Undecodable", true, None),
        };
        let path_ok = sig_root.as_ref().map(|r| shred.verify_path_only(r));
        let r = ValidatedShred::try_new(shred, cached.as_ref(), &pk);
        let commit_ok = match (&r, &want_commit) {
            (Ok(v), Some((c, root))) => v.commitment() == *c && v.slice_root() == root,
            _ => true,
        };
        (verdict_of(&r), commit_ok, path_ok)
    }));
    let fp = |what: &str| format!("case:{scn}:{m}|cache:{rel}|{what}");
    match res {
        Err(_) => rep.diverge(&fp("panic"), &["panic"], case, exp.clone(), json!({"panic": true})),
        Ok((verdict, commit_ok, path_ok)) => {
            let want = exp["verdict"].as_str().unwrap_or("?");
            if verdict != want {
                rep.diverge(&fp(&format!("verdict:{want}->{verdict}")), &["verdict"], case, exp.clone(), json!({"verdict": verdict}));
                return;
            }
            if !commit_ok {
                rep.diverge(&fp("commitment"), &["commitment"], case, exp.clone(), json!("accepted shred reports another commitment / root"));
            }
            if let Some(p) = path_ok {
                if Some(p) != exp["pathOk"].as_bool() {
                    rep.diverge(&fp(&format!("pathOk:{p}")), &["pathOk"], case, exp.clone(), json!({"verify_path_only": p}));
                }
            }
        }
    }
}

// ---------------------------------------------------------------- SEQ replay
fn event_kind(e: &BlockstoreEvent) -> &'static str {
    match e {
        BlockstoreEvent::FirstShred(_) => "FirstShred",
        BlockstoreEvent::Block { .. } => "Block",
        BlockstoreEvent::InvalidBlock(_) => "InvalidBlock",
    }
}

/// Returns (not compared, reported as an observation): how many of the shreds the block store
/// holds for the completed block fail full validation (`try_new` without a cached commitment).
fn run_seq(world: &mut World, rt: &tokio::runtime::Runtime, rep: &mut CaseReport, sq: &Value) -> Option<u64> {
    let name = sq["name"].as_str().unwrap_or("?");
    let steps = sq["steps"].as_array().expect("steps");
    rep.case(&format!("seq:{name}"), json!([name, sq["f"], sq["n"], sq["order"], steps.iter().map(|s| s["uc"].clone()).collect::<Vec<_>>(),
        steps.iter().map(|s| s["w"]["sig"].clone()).collect::<Vec<_>>()]).to_string(),
        &json!({"name": name, "scn": sq["scn"], "m": sq["m"], "f": sq["f"], "n": sq["n"], "order": sq["order"], "steps": steps.len()}));
    let (tx, mut rx) = mpsc::channel::<BlockstoreEvent>(4096);
    let mut store = BlockstoreImpl::new(tx);
    let pk = world.pk_l;
    let mut flagged = false;
    let mut seen_special = false;
    let mut block: Option<BlockId> = None;
    for (k, step) in steps.iter().enumerate() {
        let exp = &step["exp"];
        let special = step["role"].as_str() == Some("special");
        let role = if special { "special" } else if seen_special { "honest-after-special" } else { "honest" };
        seen_special |= special;
        let bytes = world.build(&step["w"]);
        let uc = step["uc"].as_bool().unwrap_or(true);
        let res = catch_unwind(AssertUnwindSafe(|| {
            let shred: Shred = match deserialize::<Shred>(&bytes) {
                Ok(s) => s,
                Err(_) => return ("Undecodable", "-", vec![], None),
            };
            let slot = Slot::new(step["w"]["slot"].as_u64().unwrap());
            let cached = if uc { store.cached_commitment(slot, slice_index(step["w"]["slice"].as_u64().unwrap())) } else { None };
            let v = ValidatedShred::try_new(shred, cached.as_ref(), &pk);
            let verdict = verdict_of(&v);
            let Ok(v) = v else {
                return (verdict, "-", vec![], None);
            };
            let ret = match rt.block_on(store.add_shred_from_dissemination(v)) {
                Ok(_) => "Ok",
                Err(AddShredError::Duplicate) => "Duplicate",
                Err(AddShredError::Equivocation) => "Equivocation",
                Err(AddShredError::InvalidShred) => "InvalidShred",
                #[allow(unreachable_patterns)]
                Err(_) => "OtherError",
            };
            let mut events = vec![];
            let mut blk = None;
            while let Ok(e) = rx.try_recv() {
                events.push(event_kind(&e));
                if let BlockstoreEvent::Block { slot, block_info } = &e {
                    blk = Some((*slot, block_info.verif_hash().clone()));
                }
            }
            (verdict, ret, events, blk)
        }));
        let ctx = json!({"name": name, "scn": sq["scn"], "m": sq["m"], "f": sq["f"], "n": sq["n"], "order": sq["order"],
                         "step": k, "role": role, "w": step["w"], "uc": uc});
        let fp = |what: &str| format!("seq:{name}|{role}|{what}");
        let (verdict, ret, events, blk) = match res {
            Ok(x) => x,
            Err(_) => {
                rep.diverge(&fp("panic"), &["panic"], &ctx, exp.clone(), json!({"panic": true}));
                return None;
            }
        };
        block = blk.or(block);
        flagged |= events.contains(&"InvalidBlock");
        let obs = json!({"verdict": verdict, "ret": ret, "events": events, "flagged": flagged});
        let e_flagged = exp["flagged"].as_bool().unwrap_or(false);
        let e_ret = exp["ret"].as_str().unwrap_or("?");
        let e_events: Vec<&str> = exp["events"].as_array().map(|a| a.iter().filter_map(Value::as_str).collect()).unwrap_or_default();
        let what = if verdict != exp["verdict"].as_str().unwrap_or("?") {
            Some(format!("verdict:{}->{verdict}", exp["verdict"].as_str().unwrap_or("?")))
        } else if flagged && !e_flagged {
            Some(format!("leader-flagged:{ret}"))
        } else if !flagged && e_flagged {
            Some(format!("not-flagged:{ret}"))
        } else if e_ret == "Dropped" {
            // the specification does not store this shred and does not hold it against the leader;
            // how the implementation reports the drop is its business
            None
        } else if ret != e_ret {
            Some(format!("ret:{e_ret}->{ret}"))
        } else if events != e_events {
            Some(format!("events:{}->{}", e_events.join("+"), events.join("+")))
        } else {
            None
        };
        if let Some(what) = what {
            let field = what.split(':').next().unwrap_or("?").to_string();
            rep.diverge(&fp(&what), &[field.as_str()], &ctx, exp.clone(), obs);
            return None; // the states have parted; the remaining steps say nothing
        }
    }
    let block = block?;
    let mut bad = 0;
    for sl in 0..=1u64 {
        for i in 0..TOTAL_SHREDS {
            let idx = alpenglow::shredder::ShredIndex::new(i).expect("index");
            if let Some(s) = store.get_shred(&block, slice_index(sl), idx) {
                if ValidatedShred::try_new(s.as_shred().clone(), None, &pk).is_err() {
                    bad += 1;
                }
            }
        }
    }
    Some(bad)
}

// ---------------------------------------------------------------- entry point
fn arg_after(args: &[String], name: &str) -> Option<String> {
    args.iter().position(|a| a == name).and_then(|i| args.get(i + 1).cloned())
}

/// `replay-shredauth [--cases <tlc.out>] [--seqs <tlc.out>] [--seed N]`
pub fn run(args: &[String], seed: u64) -> anyhow::Result<Value> {
    let mut world = World::new(seed);
    let mut rep = CaseReport::new("shredauth");
    let (mut ncases, mut nseqs, mut nsteps) = (0u64, 0u64, 0u64);
    let mut served_bad: HashMap<String, u64> = HashMap::new();
    let mut served_bad_max = 0u64;
    for flag in ["--cases", "--seqs"] {
        let Some(path) = arg_after(args, flag) else { continue };
        let meta = load_tagged(&path, "META")?;
        let meta = meta.first().ok_or_else(|| anyhow::anyhow!("no META line in {path}"))?;
        world.check_meta(meta)?;
        if flag == "--cases" {
            for c in load_tagged(&path, "CASE")? {
                ncases += 1;
                run_case(&mut world, &mut rep, &c);
            }
        } else {
            let rt = tokio::runtime::Builder::new_current_thread().build()?;
            for s in load_tagged(&path, "SEQ")? {
                nseqs += 1;
                nsteps += s["steps"].as_array().map_or(0, |a| a.len() as u64);
                if let Some(bad) = run_seq(&mut world, &rt, &mut rep, &s) {
                    if bad > 0 {
                        *served_bad.entry(s["name"].as_str().unwrap_or("?").to_string()).or_default() += 1;
                        served_bad_max = served_bad_max.max(bad);
                    }
                }
            }
        }
    }
    let mut out = rep.to_json();
    out["cases_loaded"] = json!(ncases);
    out["seqs_loaded"] = json!(nseqs);
    out["seq_steps"] = json!(nsteps);
    // observation only (not part of C12): completed blocks whose stored shreds do not all pass full validation
    out["obs_blocks_serving_shreds_that_fail_full_validation"] = json!({"by_sequence": served_bad, "max_shreds": served_bad_max});
    Ok(out)
}
