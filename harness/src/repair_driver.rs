//! C14 — block repair.  Replay driver for `MC_Repair` (spec/Repair.tla):
//!
//! * graph replay (`EDGE`/`STATE` lines): walks covering every transition are stepped into the real
//!   `Repair` (single-step hooks, a recording `Network`), a real `BlockstoreImpl` and `PoolImpl`;
//!   the good responder of the model is the real `RepairRequestHandler::run` task holding the
//!   complete block and answering the requests exactly as `Repair` put them on the wire; hostile
//!   responses are concretised from the response records of the model.  After every step the
//!   requests on the wire, the announced blocks, the responder's answer, the liveness of the task
//!   and the projected state (outstanding requests, proven roots, stored shreds, last-slice marker,
//!   stored block) are compared with the specification's.
//! * responder cases (`RCASE` lines): holding x request x sender against real handlers.
//! * scenarios (`SCEN` lines): the real `repair_loop` task (timers included) against the real
//!   handler and a scripted hostile peer; the final state is compared with the specification's.
//!
//! Every expectation comes from the TLC output; this file concretises, runs, projects, compares.

use std::collections::{BTreeMap, BTreeSet, HashMap};
use std::net::SocketAddr;
use std::panic::AssertUnwindSafe;
use std::sync::atomic::{AtomicU64, Ordering};
use std::sync::{Arc, Mutex};

use alpenglow::consensus::{
    BlockInfo, Blockstore, BlockstoreEvent, BlockstoreImpl, EpochInfo, PoolEvent, PoolImpl,
    SharedBlockstore, SharedPool, ValidatorEpochInfo,
};
use alpenglow::crypto::Hash;
use alpenglow::crypto::merkle::{
    BlockHash, DoubleMerkleProof, DoubleMerkleTree, GENESIS_BLOCK_HASH, SliceRoot,
};
use alpenglow::crypto::signature::PublicKey;
use alpenglow::network::{Network, localhost_ip_sockaddr};
use alpenglow::repair::{
    Repair, RepairRequest, RepairRequestHandler, RepairRequestType, RepairResponse,
};
use alpenglow::shredder::{RegularShredder, Shred, ShredIndex, Shredder, TOTAL_SHREDS, ValidatedShred};
use alpenglow::types::{Slice, SliceIndex, Slot};
use alpenglow::{BlockId, Transaction, ValidatorIndex};
use futures::FutureExt;
use rand::rngs::StdRng;
use rand::{Rng, SeedableRng};
use serde_json::{Value, json};
use tokio::sync::{RwLock, mpsc};

use crate::cases::{CaseReport, load_tagged};
use crate::graph::{self, Driver, canon};
use crate::world::World;

const LEADER: usize = 0;
const OWN: usize = 1;
const GOOD: usize = 2;
const OTHER_SIGNER: usize = 3;

fn slice_index(i: usize) -> SliceIndex {
    serde_json::from_str(&i.to_string()).expect("slice index")
}
fn slice_num(s: SliceIndex) -> usize {
    s.to_string().parse().expect("slice index prints as a number")
}
fn panic_msg(p: Box<dyn std::any::Any + Send>) -> String {
    if let Some(s) = p.downcast_ref::<&str>() {
        (*s).to_string()
    } else if let Some(s) = p.downcast_ref::<String>() {
        s.clone()
    } else {
        "panic".to_string()
    }
}
fn new_rt() -> tokio::runtime::Runtime {
    tokio::runtime::Builder::new_current_thread().enable_all().start_paused(true).build().expect("runtime")
}

// ------------------------------------------------------------------------------------------
// Fixtures: the blocks of the model, really shredded and signed
// ------------------------------------------------------------------------------------------
pub struct Fx {
    ns: usize,
    ng: usize,
    gsz: usize,
    epoch: EpochInfo,
    leader_pk: PublicKey,
    ids: BTreeMap<String, BlockId>,
    trees: BTreeMap<String, DoubleMerkleTree>,
    roots: BTreeMap<String, SliceRoot>,
    /// (block, slice index, header flag, signer) -> the 64 shreds
    shreds: HashMap<(String, usize, bool, String), Vec<ValidatedShred>>,
    /// wire bytes of a fixture shred -> (block, slice index, header flag, signer, shred index)
    by_bytes: HashMap<Vec<u8>, (String, usize, bool, String, usize)>,
    /// `ValidatedShred::try_new(.., None, leader_pk)` verdicts of answered shreds, by wire bytes
    sig_verdicts: Mutex<HashMap<Vec<u8>, bool>>,
}

impl Fx {
    pub fn new(ns: usize, ng: usize, seed: u64) -> Self {
        assert!(ns >= 1 && ng >= 1 && TOTAL_SHREDS % ng == 0);
        let world = World::new(&[1, 1, 1, 1], seed);
        let mut vals = world.epoch.validators().to_vec();
        for (i, v) in vals.iter_mut().enumerate() {
            v.repair_requester_address = localhost_ip_sockaddr(1000 + i as u16);
            v.repair_responder_address = localhost_ip_sockaddr(2000 + i as u16);
        }
        let epoch = EpochInfo::new(vals);
        let mut rng = StdRng::seed_from_u64(seed ^ 0xC14_5EED);
        let mut fx = Self {
            ns,
            ng,
            gsz: TOTAL_SHREDS / ng,
            leader_pk: world.sks[LEADER].to_pk(),
            epoch,
            ids: BTreeMap::new(),
            trees: BTreeMap::new(),
            roots: BTreeMap::new(),
            shreds: HashMap::new(),
            by_bytes: HashMap::new(),
            sig_verdicts: Mutex::new(HashMap::new()),
        };
        let mut shredder = RegularShredder::default();
        for (blk, prefix, slot, n) in [("B", "a", 1u64, ns), ("O", "o", 1, ns), ("Z", "z", 2, 1)] {
            let mut roots = vec![];
            for i in 0..n {
                let mut tx = vec![0u8; 48];
                rng.fill_bytes(&mut tx);
                let data = wincode::serialize(&vec![Transaction(tx)]).expect("serialize txs");
                let true_last = i == n - 1;
                let mut root = None;
                for last in [true_last, !true_last] {
                    let slice = Slice {
                        slot: Slot::new(slot),
                        slice_index: slice_index(i),
                        is_last: last,
                        parent: if i == 0 { Some((Slot::genesis(), GENESIS_BLOCK_HASH)) } else { None },
                        data: data.clone(),
                    };
                    let signers: &[(&str, usize)] =
                        if last == true_last { &[("leader", LEADER), ("other", OTHER_SIGNER)] } else { &[("leader", LEADER)] };
                    for (name, who) in signers {
                        let s = shredder.shred(&slice, &world.sks[*who]).expect("shred").to_vec();
                        // the slice root covers the payload only
                        let r = s[0].slice_root().clone();
                        assert!(root.get_or_insert(r.clone()) == &r, "root depends on header or signer");
                        fx.shreds.insert((blk.to_string(), i, last, (*name).to_string()), s);
                    }
                }
                let r = root.unwrap();
                fx.roots.insert(format!("{prefix}{i}"), r.clone());
                roots.push(r);
            }
            let tree = DoubleMerkleTree::new(roots.iter());
            fx.ids.insert(blk.to_string(), (Slot::new(slot), tree.get_root()));
            fx.trees.insert(blk.to_string(), tree);
        }
        assert!(fx.ids["B"].1 != fx.ids["O"].1);
        for ((src, idx, last, signer), v) in &fx.shreds {
            for (k, sh) in v.iter().enumerate() {
                let bytes = wincode::serialize(sh.as_shred()).expect("serialize shred");
                fx.by_bytes.insert(bytes, (src.clone(), *idx, *last, signer.clone(), k));
            }
        }
        fx
    }

    fn vepoch(&self, own: usize) -> Arc<ValidatorEpochInfo> {
        Arc::new(ValidatorEpochInfo::new(ValidatorIndex::new(own as u64), self.epoch.clone()))
    }
    fn requester_addr(&self, v: usize) -> SocketAddr {
        self.epoch.validator(ValidatorIndex::new(v as u64)).repair_requester_address
    }
    fn responder_addr(&self, v: usize) -> SocketAddr {
        self.epoch.validator(ValidatorIndex::new(v as u64)).repair_responder_address
    }
    fn blk_name(&self, id: &BlockId) -> String {
        self.ids.iter().find(|(_, v)| *v == id).map_or_else(|| "?".to_string(), |(k, _)| k.clone())
    }
    fn hash_name(&self, h: &BlockHash) -> String {
        self.ids.iter().find(|(_, v)| &v.1 == h).map_or_else(|| "X".to_string(), |(k, _)| k.clone())
    }
    fn root_name(&self, r: &SliceRoot) -> String {
        self.roots.iter().find(|(_, v)| *v == r).map_or_else(|| "?".to_string(), |(k, _)| k.clone())
    }
    fn root_prefix(blk: &str) -> &'static str {
        match blk {
            "B" => "a",
            "O" => "o",
            _ => "z",
        }
    }

    /// model request -> the concrete requests it stands for (a shred group = `gsz` shred indices)
    fn concrete(&self, r: &Value) -> Vec<RepairRequestType> {
        let id = self.ids[r["blk"].as_str().expect("blk")].clone();
        let s = slice_index(r["s"].as_u64().expect("s") as usize);
        match r["t"].as_str().expect("t") {
            "lsr" => vec![RepairRequestType::LastSliceRoot(id)],
            "sr" => vec![RepairRequestType::SliceRoot(id, s)],
            "sh" => {
                let g = r["g"].as_u64().expect("g") as usize;
                (g * self.gsz..(g + 1) * self.gsz)
                    .map(|k| RepairRequestType::Shred(id.clone(), s, ShredIndex::new(k).expect("shred index")))
                    .collect()
            }
            o => panic!("harness: unknown request type {o}"),
        }
    }

    /// (t, blk, s, shred index) of a concrete request
    fn key(&self, q: &RepairRequestType) -> (String, String, usize, usize) {
        match q {
            RepairRequestType::LastSliceRoot(id) => ("lsr".into(), self.blk_name(id), 0, 0),
            RepairRequestType::SliceRoot(id, s) => ("sr".into(), self.blk_name(id), slice_num(*s), 0),
            RepairRequestType::Shred(id, s, k) => ("sh".into(), self.blk_name(id), slice_num(*s), k.inner()),
        }
    }

    /// set of concrete requests -> set of model requests (incomplete groups are made visible)
    fn abstract_requests<'a>(&self, qs: impl IntoIterator<Item = &'a RepairRequestType>) -> Vec<Value> {
        let mut out = BTreeSet::new();
        let mut groups: BTreeMap<(String, usize, usize), BTreeSet<usize>> = BTreeMap::new();
        for q in qs {
            let (t, blk, s, k) = self.key(q);
            if t == "sh" {
                groups.entry((blk, s, k / self.gsz)).or_default().insert(k);
            } else {
                out.insert(json!({"t": t, "blk": blk, "s": s, "g": 0}).to_string());
            }
        }
        for ((blk, s, g), ks) in groups {
            if ks.len() == self.gsz {
                out.insert(json!({"t": "sh", "blk": blk, "s": s, "g": g}).to_string());
            } else {
                out.insert(json!({"t": "sh", "blk": blk, "s": s, "g": g, "partial": ks}).to_string());
            }
        }
        out.into_iter().map(|s| serde_json::from_str(&s).unwrap()).collect()
    }

    fn proof(&self, pf: &Value) -> DoubleMerkleProof {
        let tree = &self.trees[pf["blk"].as_str().expect("pf.blk")];
        let p = tree.create_proof(pf["i"].as_u64().expect("pf.i") as usize);
        if !pf["junk"].as_bool().expect("pf.junk") {
            return p;
        }
        let mut v: Vec<Hash> = p.into();
        let junk = alpenglow::crypto::hash(b"verif-c14-junk");
        if v.is_empty() {
            v.push(junk);
        } else {
            v[0] = junk;
        }
        v.into()
    }

    fn shred(&self, sh: &Value, pos: usize) -> Shred {
        let key = (
            sh["src"].as_str().expect("src").to_string(),
            sh["idx"].as_u64().expect("idx") as usize,
            sh["last"].as_bool().expect("last"),
            sh["signer"].as_str().expect("signer").to_string(),
        );
        let k = sh["g"].as_u64().expect("g") as usize * self.gsz + pos;
        let mut s = self.shreds.get(&key).unwrap_or_else(|| panic!("harness: no fixture for {key:?}"))[k].clone().into_shred();
        if sh["tag"].as_str().expect("tag") == "flip" {
            // the data/coding kind is the enum tag (u32 LE) at byte 0 of the wire format
            let mut bytes = wincode::serialize(&s).expect("serialize shred");
            assert!(bytes[0] <= 1 && bytes[1..4] == [0, 0, 0], "harness wire layout of Shred is out of date");
            bytes[0] ^= 1;
            let t: Shred = wincode::deserialize(&bytes).expect("deserialize re-tagged shred");
            assert!(t.is_data() != s.is_data() && t.slice_root() == s.slice_root());
            s = t;
        }
        if sh["dmg"].as_bool().expect("dmg") {
            // wire layout: tag u32 | slot u64 | slice index u64 | last u8 | shred index u64 | data len u64 | data ...
            let mut bytes = wincode::serialize(&s).expect("serialize shred");
            let n = u64::from_le_bytes(bytes[29..37].try_into().unwrap()) as usize;
            assert!(n > 0 && 37 + n + 64 <= bytes.len(), "harness wire layout of Shred is out of date");
            bytes[37 + n / 2] ^= 0x01;
            let t: Shred = wincode::deserialize(&bytes).expect("deserialize altered shred");
            assert!(t.slice_root() != s.slice_root());
            s = t;
        }
        s
    }

    /// response record of the model -> the concrete response to concrete request `q` (position `pos` in its group)
    fn response(&self, rp: &Value, q: &RepairRequestType, pos: usize) -> RepairResponse {
        match rp["v"].as_str().expect("v") {
            "nack" => RepairResponse::Nack(q.clone()),
            "lsr" => RepairResponse::LastSliceRoot(
                q.clone(),
                slice_index(rp["idx"].as_u64().expect("idx") as usize),
                self.roots[rp["root"].as_str().expect("root")].clone(),
                self.proof(&rp["pf"]),
            ),
            "sr" => RepairResponse::SliceRoot(q.clone(), self.roots[rp["root"].as_str().expect("root")].clone(), self.proof(&rp["pf"])),
            "sh" => RepairResponse::Shred(q.clone(), self.shred(&rp["sh"], pos)),
            o => panic!("harness: unknown response variant {o}"),
        }
    }

    /// Fills the slot's DISSEMINATION spot of `store` as the model's `dissem` says: nothing, one
    /// validly signed shred of every slice of the leader's other block O, or of B itself.
    async fn populate(&self, store: &SharedBlockstore, dissem: &str) {
        let blk = match dissem {
            "empty" => return,
            "other" => "O",
            "same" => "B",
            o => panic!("harness: unknown dissemination content {o}"),
        };
        let mut s = store.write().await;
        for i in 0..self.ns {
            let shred = self.shreds[&(blk.to_string(), i, i == self.ns - 1, "leader".to_string())][0].clone();
            s.add_shred_from_dissemination(shred).await.expect("harness: dissemination fixture accepted");
        }
    }

    fn no_sh() -> Value {
        json!({"src": "-", "idx": 0, "g": 0, "last": false, "signer": "-", "dmg": false, "tag": "ok"})
    }
    fn no_pf() -> Value {
        json!({"blk": "-", "i": 0, "junk": false})
    }

    /// Describes a real answer to concrete request `q` in the vocabulary of the model and verifies it
    /// the way any requester can (`ok`).
    fn describe(&self, q: &RepairRequestType, resp: &RepairResponse) -> Value {
        let (t, blk, s, _k) = self.key(q);
        let hash = self.ids.get(&blk).map(|id| id.1.clone());
        let embeds = |rt: &RepairRequestType| rt == q;
        match resp {
            RepairResponse::Nack(rt) => json!({"v": "nack", "idx": 0, "root": "-", "pf": Self::no_pf(), "sh": Self::no_sh(), "ok": false, "embeds": embeds(rt)}),
            RepairResponse::LastSliceRoot(rt, idx, root, proof) => {
                let i = slice_num(*idx);
                let canonical = self.trees.get(&blk).is_some_and(|t| i < self.ns && t.create_proof(i) == *proof);
                let ok = t == "lsr" && hash.as_ref().is_some_and(|h| DoubleMerkleTree::check_proof_last(root, i, h, proof));
                json!({"v": "lsr", "idx": i, "root": self.root_name(root),
                       "pf": {"blk": if canonical { blk.as_str() } else { "?" }, "i": i, "junk": false},
                       "sh": Self::no_sh(), "ok": ok, "embeds": embeds(rt)})
            }
            RepairResponse::SliceRoot(rt, root, proof) => {
                let canonical = self.trees.get(&blk).is_some_and(|t| s < self.ns && t.create_proof(s) == *proof);
                let ok = t == "sr" && hash.as_ref().is_some_and(|h| DoubleMerkleTree::check_proof(root, s, h, proof));
                json!({"v": "sr", "idx": 0, "root": self.root_name(root),
                       "pf": {"blk": if canonical { blk.as_str() } else { "?" }, "i": s, "junk": false},
                       "sh": Self::no_sh(), "ok": ok, "embeds": embeds(rt)})
            }
            RepairResponse::Shred(rt, shred) => {
                let bytes = wincode::serialize(shred).expect("serialize shred");
                let mut desc = json!({"src": "?", "idx": 0, "g": 0, "last": false, "signer": "?", "dmg": false, "tag": "?"});
                if let Some((src, idx, last, signer, k)) = self.by_bytes.get(&bytes) {
                    // the fixtures carry the kind the leader gave them
                    desc = json!({"src": src, "idx": idx, "g": k / self.gsz, "last": last, "signer": signer, "dmg": false, "tag": "ok", "k": k});
                }
                let want_k = match q {
                    RepairRequestType::Shred(_, _, k) => k.inner(),
                    _ => usize::MAX,
                };
                let exact = desc["k"].as_u64() == Some(want_k as u64);
                desc.as_object_mut().unwrap().remove("k");
                let ok = t == "sh"
                    && exact
                    && s < self.ns
                    && self.roots.get(&format!("{}{s}", Self::root_prefix(&blk))).is_some_and(|r| shred.slice_root() == *r)
                    && *self
                        .sig_verdicts
                        .lock()
                        .unwrap()
                        .entry(bytes.clone())
                        .or_insert_with(|| ValidatedShred::try_new(shred.clone(), None, &self.leader_pk).is_ok())
                    && desc["last"].as_bool() == Some(s == self.ns - 1);
                json!({"v": "sh", "idx": 0, "root": "-", "pf": Self::no_pf(), "sh": desc, "ok": ok, "embeds": embeds(rt)})
            }
        }
    }
}

// ------------------------------------------------------------------------------------------
// Networks
// ------------------------------------------------------------------------------------------
/// Requester side for the single-step replay: records what is sent, never receives.
#[derive(Clone, Default)]
struct RecNet {
    sent: Arc<Mutex<Vec<(RepairRequest, Vec<SocketAddr>)>>>,
}

impl Network for RecNet {
    type Send = RepairRequest;
    type Recv = RepairResponse;

    async fn send(&self, message: &RepairRequest, addr: SocketAddr) -> std::io::Result<()> {
        self.sent.lock().unwrap().push((message.clone(), vec![addr]));
        Ok(())
    }

    async fn send_to_many(&self, message: &RepairRequest, addrs: impl IntoIterator<Item = SocketAddr> + Send) -> std::io::Result<()> {
        let addrs: Vec<SocketAddr> = addrs.into_iter().collect();
        self.sent.lock().unwrap().push((message.clone(), addrs));
        Ok(())
    }

    async fn receive(&self) -> std::io::Result<RepairResponse> {
        std::future::pending().await
    }
}

/// Responder side: requests are pushed by the harness, answers recorded (or forwarded).
struct HandlerNet {
    rx: tokio::sync::Mutex<mpsc::UnboundedReceiver<RepairRequest>>,
    idle: Arc<AtomicU64>,
    sent: Arc<Mutex<Vec<(RepairResponse, SocketAddr)>>>,
    forward: Option<mpsc::UnboundedSender<RepairResponse>>,
}

impl Network for HandlerNet {
    type Send = RepairResponse;
    type Recv = RepairRequest;

    async fn send(&self, message: &RepairResponse, addr: SocketAddr) -> std::io::Result<()> {
        self.sent.lock().unwrap().push((message.clone(), addr));
        if let Some(f) = &self.forward {
            let _ = f.send(message.clone());
        }
        Ok(())
    }

    async fn send_to_many(&self, message: &RepairResponse, addrs: impl IntoIterator<Item = SocketAddr> + Send) -> std::io::Result<()> {
        let addrs: Vec<SocketAddr> = addrs.into_iter().collect();
        for a in addrs {
            self.sent.lock().unwrap().push((message.clone(), a));
        }
        Ok(())
    }

    async fn receive(&self) -> std::io::Result<RepairRequest> {
        let mut rx = self.rx.lock().await;
        if let Ok(m) = rx.try_recv() {
            return Ok(m);
        }
        self.idle.fetch_add(1, Ordering::SeqCst);
        match rx.recv().await {
            Some(m) => Ok(m),
            None => std::future::pending().await,
        }
    }
}

/// A real `RepairRequestHandler::run` task over a block store with a given holding.
struct Responder {
    tx: mpsc::UnboundedSender<RepairRequest>,
    idle: Arc<AtomicU64>,
    sent: Arc<Mutex<Vec<(RepairResponse, SocketAddr)>>>,
    task: tokio::task::JoinHandle<()>,
    _events: mpsc::Receiver<BlockstoreEvent>,
}

impl Responder {
    /// holding: none | full_d (complete, via dissemination) | full_r (complete, via repair) |
    /// part0 | partlast (one slice filed under hash(B) via repair)
    fn spawn(fx: &Fx, rt: &tokio::runtime::Runtime, holding: &str, forward: Option<mpsc::UnboundedSender<RepairResponse>>) -> Self {
        let (etx, erx) = mpsc::channel(4096);
        let mut store = BlockstoreImpl::new(etx);
        let hash = fx.ids["B"].1.clone();
        let slices: Vec<usize> = match holding {
            "none" => vec![],
            "full_d" | "full_r" => (0..fx.ns).collect(),
            "part0" => vec![0],
            "partlast" => vec![fx.ns - 1],
            o => panic!("harness: unknown holding {o}"),
        };
        rt.block_on(async {
            for i in slices {
                for s in &fx.shreds[&("B".to_string(), i, i == fx.ns - 1, "leader".to_string())] {
                    let r = if holding == "full_d" {
                        store.add_shred_from_dissemination(s.clone()).await
                    } else {
                        store.add_shred_from_repair(hash.clone(), s.clone()).await
                    };
                    // shreds regenerated by an earlier reconstruction are duplicates
                    let _ = r;
                }
            }
        });
        if holding.starts_with("full") {
            assert!(store.get_block(&fx.ids["B"]).is_some(), "harness: responder fixture incomplete");
        }
        let store: SharedBlockstore = Arc::new(RwLock::new(store));
        let (tx, rx) = mpsc::unbounded_channel();
        let idle = Arc::new(AtomicU64::new(0));
        let sent = Arc::new(Mutex::new(Vec::new()));
        let net = HandlerNet { rx: tokio::sync::Mutex::new(rx), idle: idle.clone(), sent: sent.clone(), forward };
        let handler = RepairRequestHandler::new(fx.vepoch(GOOD), store, net);
        let task = rt.spawn(async move { handler.run().await });
        Self { tx, idle, sent, task, _events: erx }
    }

    /// Hands one request to the handler task and waits until it asks for the next one.
    /// Err = the task died or does not come back.
    fn ask(&self, rt: &tokio::runtime::Runtime, req: RepairRequest) -> Result<Vec<(RepairResponse, SocketAddr)>, String> {
        self.sent.lock().unwrap().clear();
        let before = self.idle.load(Ordering::SeqCst);
        self.tx.send(req).map_err(|_| "handler task is gone".to_string())?;
        let ok = rt.block_on(async {
            for _ in 0..10_000 {
                if self.idle.load(Ordering::SeqCst) > before {
                    return true;
                }
                if self.task.is_finished() {
                    return false;
                }
                tokio::task::yield_now().await;
            }
            false
        });
        if !ok {
            return Err(if self.task.is_finished() { "handler task died".to_string() } else { "handler task does not return to receive".to_string() });
        }
        Ok(std::mem::take(&mut *self.sent.lock().unwrap()))
    }
}

// ------------------------------------------------------------------------------------------
// Graph replay driver
// ------------------------------------------------------------------------------------------
struct Requester {
    repair: Repair<RecNet>,
    net: RecNet,
    store: SharedBlockstore,
    store_impl: Arc<RwLock<BlockstoreImpl>>,
    events: mpsc::Receiver<BlockstoreEvent>,
    pool_events: mpsc::Receiver<PoolEvent>,
    repair_reqs: mpsc::Receiver<BlockId>,
    _pool: SharedPool,
}

pub struct RepairDriver {
    fx: Fx,
    rt: tokio::runtime::Runtime,
    good: Responder,
    rq: Option<Requester>,
    /// the latest message on the wire per concrete request
    last_wire: HashMap<(String, String, usize, usize), RepairRequest>,
    last_label: String,
    /// the actions of the current walk (kept for the reproduction of a divergence)
    walk: Vec<Value>,
    /// every divergence fingerprint seen (the engine's report is capped)
    pub all_fps: Mutex<BTreeMap<String, (u64, Value)>>,
}

impl RepairDriver {
    pub fn new(ns: usize, ng: usize, seed: u64) -> Self {
        let fx = Fx::new(ns, ng, seed);
        let rt = new_rt();
        let good = Responder::spawn(&fx, &rt, "full_d", None);
        Self { fx, rt, good, rq: None, last_wire: HashMap::new(), last_label: String::new(), walk: Vec::new(), all_fps: Mutex::new(BTreeMap::new()) }
    }

    fn note(&self, fields: &[String], prefix: &str, detail: Value) {
        if fields.is_empty() {
            return;
        }
        let fp = format!("{}|{}", self.last_label, fields.iter().map(|f| format!("{prefix}{f}")).collect::<Vec<_>>().join(","));
        let mut m = self.all_fps.lock().unwrap();
        let e = m.entry(fp).or_insert_with(|| {
            let mut d = detail;
            d["walk"] = Value::Array(self.walk.clone());
            d["how_to_rerun"] = json!(format!(
                "write the walk to a file and run: verif-harness replay-repair --ns {} --ng {} --script <file>",
                self.fx.ns, self.fx.ng
            ));
            (0, d)
        });
        e.0 += 1;
    }

    /// feeds responses one by one; Err(message) on the first panic
    fn feed(&mut self, resps: Vec<RepairResponse>) -> Result<(), String> {
        let rq = self.rq.as_mut().expect("requester");
        for r in resps {
            let res = self.rt.block_on(AssertUnwindSafe(rq.repair.verif_handle_response(r)).catch_unwind());
            if let Err(p) = res {
                return Err(panic_msg(p));
            }
        }
        Ok(())
    }

    fn collect_out(&mut self, panic: String, ans: Value) -> Value {
        let rq = self.rq.as_mut().expect("requester");
        let sent: Vec<(RepairRequest, Vec<SocketAddr>)> = std::mem::take(&mut *rq.net.sent.lock().unwrap());
        let peers: BTreeSet<SocketAddr> = (0..4).filter(|v| *v != OWN).map(|v| self.fx.responder_addr(v)).collect();
        let mut bad = vec![];
        let mut types = vec![];
        for (m, addrs) in &sent {
            let q = m.verif_req_type().clone();
            if m.verif_sender() != ValidatorIndex::new(OWN as u64) {
                bad.push(format!("sender {:?}", m.verif_sender()));
            }
            let distinct: BTreeSet<&SocketAddr> = addrs.iter().collect();
            if addrs.is_empty() || addrs.len() > 3 || distinct.len() != addrs.len() || !addrs.iter().all(|a| peers.contains(a)) {
                bad.push(format!("destinations {addrs:?}"));
            }
            self.last_wire.insert(self.fx.key(&q), m.clone());
            types.push(q);
        }
        let mut wire = self.fx.abstract_requests(types.iter());
        for b in bad {
            wire.push(json!({"bad": b}));
        }
        let mut ev = vec![];
        let mut inv = 0u64;
        while let Ok(e) = rq.events.try_recv() {
            match e {
                BlockstoreEvent::Block { slot, block_info } => {
                    let name = self.fx.hash_name(block_info.verif_hash());
                    ev.push(if slot == Slot::new(1) { name } else { format!("{name}@{}", slot.inner()) });
                }
                BlockstoreEvent::InvalidBlock(_) => inv += 1,
                BlockstoreEvent::FirstShred(_) => {}
            }
        }
        while rq.pool_events.try_recv().is_ok() {}
        while rq.repair_reqs.try_recv().is_ok() {}
        json!({"wire": wire, "ev": ev, "ans": ans, "panic": panic, "inv": inv})
    }
}

impl Driver for RepairDriver {
    fn reset(&mut self) {
        let (etx, erx) = mpsc::channel(4096);
        let store_impl = Arc::new(RwLock::new(BlockstoreImpl::new(etx)));
        let store: SharedBlockstore = store_impl.clone();
        let (ptx, prx) = mpsc::channel(4096);
        let (rtx, rrx) = mpsc::channel(4096);
        let vepoch = self.fx.vepoch(OWN);
        let pool: SharedPool = Arc::new(RwLock::new(PoolImpl::new(vepoch.clone(), ptx, rtx)));
        let net = RecNet::default();
        let repair = Repair::new(store.clone(), pool.clone(), net.clone(), vepoch);
        self.rq = Some(Requester { repair, net, store, store_impl, events: erx, pool_events: prx, repair_reqs: rrx, _pool: pool });
        self.last_wire.clear();
        self.walk.clear();
    }

    fn step(&mut self, act: &Value) -> Value {
        self.last_label = self.act_label(act);
        self.walk.push(act.clone());
        let mut ans = json!({"v": "-", "ok": false});
        let mut panic = String::new();
        match act["op"].as_str().unwrap_or("") {
            "populate" => {
                let rq = self.rq.as_ref().expect("requester");
                self.rt.block_on(self.fx.populate(&rq.store, act["dissem"].as_str().expect("dissem")));
            }
            "start" => {
                let id = self.fx.ids["B"].clone();
                let rq = self.rq.as_mut().expect("requester");
                if let Err(p) = self.rt.block_on(AssertUnwindSafe(rq.repair.repair_block(id)).catch_unwind()) {
                    panic = panic_msg(p);
                }
            }
            "timeout" => {
                let rq = self.rq.as_mut().expect("requester");
                let n = rq.repair.verif_pending_timeouts();
                for _ in 0..n {
                    if let Err(p) = self.rt.block_on(AssertUnwindSafe(rq.repair.verif_fire_next_timeout()).catch_unwind()) {
                        panic = panic_msg(p);
                        break;
                    }
                }
            }
            "good" => {
                // the real responder answers the request as the requester put it on the wire
                let qs = self.fx.concrete(&act["req"]);
                let mut descs: Vec<Value> = vec![];
                let mut resps = vec![];
                for q in &qs {
                    let Some(msg) = self.last_wire.get(&self.fx.key(q)).cloned() else {
                        descs.push(json!({"v": "not-on-the-wire"}));
                        continue;
                    };
                    match self.good.ask(&self.rt, msg) {
                        Err(e) => descs.push(json!({"v": "responder-failed", "why": e})),
                        Ok(v) => {
                            if v.len() != 1 || v[0].1 != self.fx.requester_addr(OWN) {
                                descs.push(json!({"v": "answers", "n": v.len(), "to": v.iter().map(|x| x.1.to_string()).collect::<Vec<_>>()}));
                            }
                            for (r, _) in v {
                                descs.push(self.fx.describe(q, &r));
                                resps.push(r);
                            }
                        }
                    }
                }
                descs.sort_by_key(Value::to_string);
                descs.dedup();
                ans = if descs.len() == 1 { descs.pop().unwrap() } else { json!({"v": "mixed", "all": descs}) };
                if let Err(p) = self.feed(resps) {
                    panic = p;
                }
            }
            "hostile" => {
                let rp = &act["rp"];
                let qs = self.fx.concrete(&rp["req"]);
                let resps: Vec<RepairResponse> = qs.iter().enumerate().map(|(pos, q)| self.fx.response(rp, q, pos)).collect();
                if let Err(p) = self.feed(resps) {
                    panic = p;
                }
            }
            o => panic!("harness: unknown action {o}"),
        }
        self.collect_out(panic, ans)
    }

    fn obs(&mut self) -> Value {
        let fx = &self.fx;
        let rq = self.rq.as_ref().expect("requester");
        let out = fx.abstract_requests(rq.repair.verif_outstanding().iter());
        let b = fx.ids["B"].clone();
        let mut roots = vec!["-".to_string(); fx.ns];
        let mut other = false;
        for (id, s, r) in rq.repair.verif_slice_roots() {
            let i = slice_num(s);
            if id == b && i < fx.ns {
                roots[i] = fx.root_name(&r);
            } else {
                other = true;
            }
        }
        let store = self.rt.block_on(rq.store.read());
        let mut sh = vec![];
        for i in 0..fx.ns {
            let mut groups = vec![];
            for g in 0..fx.ng {
                let held: Vec<usize> = (g * fx.gsz..(g + 1) * fx.gsz)
                    .filter(|k| store.get_shred(&b, slice_index(i), ShredIndex::new(*k).unwrap()).is_some())
                    .collect();
                if held.len() == fx.gsz {
                    groups.push(json!(g));
                } else if !held.is_empty() {
                    groups.push(json!({"g": g, "partial": held}));
                }
            }
            sh.push(Value::Array(groups));
        }
        let marker = store.get_last_slice_index(&b).map_or(-1, |s| slice_num(s) as i64);
        let flagged = self.rt.block_on(rq.store_impl.read()).verif_leader_misbehaved(Slot::new(1));
        let dcache: Vec<bool> = (0..fx.ns).map(|i| store.cached_commitment(Slot::new(1), slice_index(i)).is_some()).collect();
        // get_block carries a debug assertion on the stored hash
        let done = match std::panic::catch_unwind(AssertUnwindSafe(|| store.get_block(&b).map(|blk| BlockInfo::from(blk).verif_hash().clone()))) {
            Ok(None) => "-".to_string(),
            Ok(Some(h)) => fx.hash_name(&h),
            Err(p) => format!("panic: {}", panic_msg(p)),
        };
        // nothing may be filed under identifiers nobody asked for, or beyond the block
        let o = fx.ids["O"].clone();
        other |= store.get_last_slice_index(&o).is_some()
            || store.get_slice_root(&o, slice_index(0)).is_some()
            || store.get_block(&o).is_some()
            || store.get_slice_root(&b, slice_index(fx.ns)).is_some()
            || store.disseminated_block_hash(Slot::new(1)).is_some()
            || store.get_slice_root(&fx.ids["Z"], slice_index(0)).is_some();
        json!({"out": out, "roots": roots, "sh": sh, "marker": marker, "done": done, "flagged": flagged, "dcache": dcache, "other": other})
    }

    fn diff_out(&mut self, _act: &Value, exp: &Value, got: &Value) -> Vec<String> {
        let mut d = vec![];
        if canon(&exp["wire"]) != canon(&got["wire"]) {
            d.push("wire".to_string());
        }
        if exp["ev"] != got["ev"] {
            d.push("ev".to_string());
        }
        if exp["inv"] != got["inv"] {
            d.push("inv".to_string());
        }
        if exp["ans"]["v"] != "-" {
            let mut g = got["ans"].clone();
            let embeds = g.as_object_mut().and_then(|o| o.remove("embeds"));
            if canon(&exp["ans"]) != canon(&g) || embeds != Some(json!(true)) {
                d.push("ans".to_string());
            }
        }
        let panicked = !got["panic"].as_str().unwrap_or("").is_empty();
        if exp["panic"].as_bool() != Some(panicked) {
            d.push("panic".to_string());
        }
        self.note(&d, "", json!({"expected": exp, "observed": got}));
        d
    }

    fn diff_obs(&self, exp: &Value, got: &Value) -> Vec<String> {
        let mut d = vec![];
        for k in ["out", "roots", "sh", "marker", "done", "flagged", "dcache", "other"] {
            let same = if k == "out" || k == "sh" { canon(&exp[k]) == canon(&got[k]) } else { exp[k] == got[k] };
            if !same {
                d.push(k.to_string());
            }
        }
        self.note(&d, "obs.", json!({"expected": exp, "observed": got}));
        d
    }

    fn act_label(&self, act: &Value) -> String {
        match act["op"].as_str().unwrap_or("?") {
            "good" => format!("good:{}", act["req"]["t"].as_str().unwrap_or("?")),
            "hostile" => format!(
                "hostile:{}:{}->{}:{}",
                act["kind"].as_str().unwrap_or("?"),
                act["rp"]["v"].as_str().unwrap_or("?"),
                act["rp"]["req"]["t"].as_str().unwrap_or("?"),
                if act["hit"].as_bool() == Some(true) { "hit" } else { "miss" }
            ),
            "populate" => format!("populate:{}", act["dissem"].as_str().unwrap_or("?")),
            o => o.to_string(),
        }
    }
}

// ------------------------------------------------------------------------------------------
// Responder cases
// ------------------------------------------------------------------------------------------
fn run_rcases(path: &str, fx: &Fx) -> anyhow::Result<Value> {
    let cases = load_tagged(path, "RCASE")?;
    let rt = new_rt();
    let mut responders: BTreeMap<&str, Vec<Responder>> = BTreeMap::new();
    responders.insert("none", vec![Responder::spawn(fx, &rt, "none", None)]);
    responders.insert("full", vec![Responder::spawn(fx, &rt, "full_d", None), Responder::spawn(fx, &rt, "full_r", None)]);
    if fx.ns >= 2 {
        responders.insert("part0", vec![Responder::spawn(fx, &rt, "part0", None)]);
        responders.insert("partlast", vec![Responder::spawn(fx, &rt, "partlast", None)]);
    }
    let mut rep = CaseReport::new("repair-responder");
    for case in &cases {
        let c = &case["c"];
        let exp = &case["exp"];
        let hold = c["hold"].as_str().expect("hold");
        let sender = if c["sender"] == "peer" { OWN as u64 } else { 99 };
        let label = format!("{hold}:{}:{}:{}", c["req"]["t"].as_str().unwrap_or("?"), c["sender"].as_str().unwrap_or("?"), exp["v"].as_str().unwrap_or("?"));
        rep.case(&label, c.to_string(), case);
        for (n, r) in responders[hold].iter().enumerate() {
            let mut descs = vec![];
            for q in fx.concrete(&c["req"]) {
                let msg = RepairRequest::verif_new(ValidatorIndex::new(sender), q.clone());
                match r.ask(&rt, msg) {
                    Err(e) => descs.push(json!({"v": "responder-failed", "why": e})),
                    Ok(v) if v.is_empty() => descs.push(json!({"v": "none"})),
                    Ok(v) => {
                        if v.len() != 1 || v[0].1 != fx.requester_addr(OWN) {
                            descs.push(json!({"v": "answers", "n": v.len()}));
                        }
                        for (resp, _) in v {
                            descs.push(fx.describe(&q, &resp));
                        }
                    }
                }
            }
            descs.sort_by_key(Value::to_string);
            descs.dedup();
            let got = if descs.len() == 1 { descs.pop().unwrap() } else { json!({"v": "mixed", "all": descs}) };
            // expected: the answer record of the model (without the embedded request) / none
            let want = if exp["v"] == "none" {
                json!({"v": "none"})
            } else {
                let positive = exp["v"] != "nack";
                json!({"v": exp["v"], "idx": exp["idx"], "root": exp["root"], "pf": exp["pf"], "sh": exp["sh"], "ok": positive, "embeds": true})
            };
            if canon(&want) != canon(&got) {
                let what = if got["v"] != want["v"] { "answer.kind" } else if got["ok"] != want["ok"] { "answer.verifies" } else { "answer.content" };
                let fp = format!("rcase:{hold}:{}|{what}", c["req"]["t"].as_str().unwrap_or("?"));
                rep.diverge(&fp, &[what], case, want, json!({"store": n, "got": got}));
            }
        }
    }
    let mut out = rep.to_json();
    out["loaded"] = json!(cases.len());
    Ok(out)
}

// ------------------------------------------------------------------------------------------
// Scenarios through the real repair_loop
// ------------------------------------------------------------------------------------------
/// Requester side of a scenario: requests go to the good responder (when addressed) and are shown
/// to the scripted hostile peer, whose answer is queued first.
struct LoopNet {
    rx: tokio::sync::Mutex<mpsc::UnboundedReceiver<RepairResponse>>,
    inbox: mpsc::UnboundedSender<RepairResponse>,
    to_good: mpsc::UnboundedSender<RepairRequest>,
    good_addr: SocketAddr,
    /// (key of the concrete request, response) not yet used
    script: Mutex<Vec<((String, String, usize, usize), RepairResponse)>>,
    keyer: Arc<dyn Fn(&RepairRequestType) -> (String, String, usize, usize) + Send + Sync>,
    requests: Arc<AtomicU64>,
}

impl Network for LoopNet {
    type Send = RepairRequest;
    type Recv = RepairResponse;

    async fn send(&self, message: &RepairRequest, addr: SocketAddr) -> std::io::Result<()> {
        self.send_to_many(message, [addr]).await
    }

    async fn send_to_many(&self, message: &RepairRequest, addrs: impl IntoIterator<Item = SocketAddr> + Send) -> std::io::Result<()> {
        let addrs: Vec<SocketAddr> = addrs.into_iter().collect();
        self.requests.fetch_add(1, Ordering::SeqCst);
        let key = (self.keyer)(message.verif_req_type());
        {
            let mut s = self.script.lock().unwrap();
            if let Some(pos) = s.iter().position(|(k, _)| *k == key) {
                let (_, resp) = s.remove(pos);
                let _ = self.inbox.send(resp);
            }
        }
        if addrs.contains(&self.good_addr) {
            let _ = self.to_good.send(message.clone());
        }
        Ok(())
    }

    async fn receive(&self) -> std::io::Result<RepairResponse> {
        let mut rx = self.rx.lock().await;
        match rx.recv().await {
            Some(m) => Ok(m),
            None => std::future::pending().await,
        }
    }
}

fn run_scenarios(path: &str, fx: Arc<Fx>, limit: usize, seed: u64) -> anyhow::Result<Value> {
    let mut cases = load_tagged(path, "SCEN")?;
    let loaded = cases.len();
    if limit > 0 && cases.len() > limit {
        // seeded sample, singles first (they come first in the dump order of TLC? no: sort by length)
        cases.sort_by_key(|c| c["script"].as_array().map_or(0, Vec::len));
        let singles = cases.iter().filter(|c| c["script"].as_array().map_or(0, Vec::len) <= 1).count();
        let mut rng = StdRng::seed_from_u64(seed ^ 0x5CE7);
        let mut rest: Vec<Value> = cases.split_off(singles.min(cases.len()));
        while cases.len() < limit && !rest.is_empty() {
            let j = (rng.next_u64() % rest.len() as u64) as usize;
            cases.push(rest.swap_remove(j));
        }
    }
    let mut rep = CaseReport::new("repair-loop");
    let mut total_requests = 0u64;
    for case in &cases {
        let script = case["script"].as_array().expect("script");
        let kinds: Vec<String> = script
            .iter()
            .map(|h| {
                let r = &h["rp"]["req"];
                let t = r["t"].as_str().unwrap_or("?");
                // which single request / which shred group of which slice is hit
                let at = match t {
                    "sh" => format!("sh({},{})", r["s"], r["g"]),
                    "sr" => format!("sr({})", r["s"]),
                    o => o.to_string(),
                };
                format!("{}:{}->{at}", h["kind"].as_str().unwrap_or("?"), h["rp"]["v"].as_str().unwrap_or("?"))
            })
            .collect();
        let dissem = case["dissem"].as_str().expect("dissem");
        let label = format!("{}@{dissem}", kinds.join("+"));
        rep.case(&label, format!("{dissem}:{}", case["script"]), case);

        let rt = new_rt();
        let (inbox_tx, inbox_rx) = mpsc::unbounded_channel();
        let good = Responder::spawn(&fx, &rt, "full_d", Some(inbox_tx.clone()));
        let mut concrete_script = vec![];
        for h in script {
            let rp = &h["rp"];
            for (pos, q) in fx.concrete(&rp["req"]).iter().enumerate() {
                concrete_script.push((fx.key(q), fx.response(rp, q, pos)));
            }
        }
        let fxk = fx.clone();
        let requests = Arc::new(AtomicU64::new(0));
        let net = LoopNet {
            rx: tokio::sync::Mutex::new(inbox_rx),
            inbox: inbox_tx,
            to_good: good.tx.clone(),
            good_addr: fx.responder_addr(GOOD),
            script: Mutex::new(concrete_script),
            keyer: Arc::new(move |q| fxk.key(q)),
            requests: requests.clone(),
        };
        let (etx, mut erx) = mpsc::channel(4096);
        let store_impl = Arc::new(RwLock::new(BlockstoreImpl::new(etx)));
        let store: SharedBlockstore = store_impl.clone();
        // what Rotor left in the slot's dissemination spot before the repair starts
        rt.block_on(fx.populate(&store, dissem));
        while erx.try_recv().is_ok() {}
        let (ptx, mut prx) = mpsc::channel(4096);
        let (rtx, mut rrx) = mpsc::channel(4096);
        let vepoch = fx.vepoch(OWN);
        let pool: SharedPool = Arc::new(RwLock::new(PoolImpl::new(vepoch.clone(), ptx, rtx)));
        let mut repair = Repair::new(store.clone(), pool, net, vepoch);
        let (block_tx, block_rx) = mpsc::channel(8);
        let task = rt.spawn(async move { repair.repair_loop(block_rx).await });
        let b = fx.ids["B"].clone();
        let got = rt.block_on(async {
            block_tx.send(b.clone()).await.expect("repair task accepts the block");
            let mut ann: Vec<String> = vec![];
            let mut inv = 0u64;
            let mut stored_at = None;
            // The clock is paused and advances when every task is idle.  `repair_loop` computes the
            // expiry of its timers from the wall clock but sleeps on the (virtual) tokio clock, so
            // under a paused clock every entry of its timeout queue costs up to REPAIR_TIMEOUT of
            // virtual time: the horizon is one virtual hour (thousands of queue entries).
            for tick in 0..14_400u32 {
                tokio::time::sleep(std::time::Duration::from_millis(250)).await;
                while let Ok(e) = erx.try_recv() {
                    match e {
                        BlockstoreEvent::Block { block_info, .. } => ann.push(fx.hash_name(block_info.verif_hash())),
                        BlockstoreEvent::InvalidBlock(_) => inv += 1,
                        BlockstoreEvent::FirstShred(_) => {}
                    }
                }
                while prx.try_recv().is_ok() {}
                while rrx.try_recv().is_ok() {}
                if task.is_finished() {
                    break;
                }
                if stored_at.is_none() && !ann.is_empty() {
                    stored_at = Some(tick);
                }
                // keep running for a while after the block arrived (late / duplicate answers, retries)
                if stored_at.is_some_and(|t| tick >= t + 40) {
                    break;
                }
            }
            let s = store.read().await;
            let done = match std::panic::catch_unwind(AssertUnwindSafe(|| s.get_block(&b).map(|blk| BlockInfo::from(blk).verif_hash().clone()))) {
                Ok(None) => "-".to_string(),
                Ok(Some(h)) => fx.hash_name(&h),
                Err(p) => format!("panic: {}", panic_msg(p)),
            };
            drop(s);
            // does the slot still take an authentic shred through dissemination?
            let probe_blk = if dissem == "other" { "O" } else { "B" };
            let probe = fx.shreds[&(probe_blk.to_string(), 0, fx.ns == 1, "leader".to_string())][1].clone();
            let accepts = if task.is_finished() {
                Value::Null
            } else {
                let r = store_impl.write().await.add_shred_from_dissemination(probe).await;
                json!(!matches!(r, Err(alpenglow::consensus::AddShredError::InvalidShred | alpenglow::consensus::AddShredError::Equivocation)))
            };
            while let Ok(e) = erx.try_recv() {
                if matches!(e, BlockstoreEvent::InvalidBlock(_)) {
                    inv += 1;
                }
            }
            json!({"done": done, "ann": ann, "panic": task.is_finished(), "inv": inv, "accepts": accepts})
        });
        total_requests += requests.load(Ordering::SeqCst);
        let exp = &case["exp"];
        let want = json!({"done": exp["done"], "ann": exp["ann"], "panic": exp["panic"], "inv": exp["inv"], "accepts": exp["accepts"]});
        if want != got {
            let what = if got["panic"] != want["panic"] {
                "task-died"
            } else if got["inv"] != want["inv"] || got["accepts"] != want["accepts"] {
                "leader-flagged"
            } else if got["done"] == "-" {
                "never-stored"
            } else {
                "stored-or-announced-differently"
            };
            rep.diverge(&format!("loop:{label}|{what}"), &[what], case, want, got);
        }
        drop(good);
        rt.shutdown_background();
    }
    let mut out = rep.to_json();
    out["loaded"] = json!(loaded);
    out["requests_on_the_wire"] = json!(total_requests);
    Ok(out)
}

// ------------------------------------------------------------------------------------------
fn arg_after(args: &[String], name: &str) -> Option<String> {
    args.iter().position(|a| a == name).and_then(|i| args.get(i + 1).cloned())
}

/// `replay-repair --ns N --ng G [--tlc-out graph] [--rcases file] [--scenarios file [--limit K]] [--script file]`
pub fn run(args: &[String], seed: u64) -> anyhow::Result<Value> {
    let ns: usize = arg_after(args, "--ns").and_then(|s| s.parse().ok()).expect("--ns");
    let ng: usize = arg_after(args, "--ng").and_then(|s| s.parse().ok()).expect("--ng");
    if let Some(path) = arg_after(args, "--rcases") {
        return run_rcases(&path, &Fx::new(ns, ng, seed));
    }
    if let Some(path) = arg_after(args, "--scenarios") {
        let limit = arg_after(args, "--limit").and_then(|s| s.parse().ok()).unwrap_or(0);
        return run_scenarios(&path, Arc::new(Fx::new(ns, ng, seed)), limit, seed);
    }
    let mut d = RepairDriver::new(ns, ng, seed);
    if let Some(path) = arg_after(args, "--script") {
        // a fixed action sequence (reproductions): prints outputs and projected state per step
        let acts: Value = serde_json::from_str(&std::fs::read_to_string(path)?)?;
        d.reset();
        let mut steps = vec![];
        for a in acts.as_array().expect("script: array of actions") {
            let out = d.step(a);
            let dead = !out["panic"].as_str().unwrap_or("").is_empty();
            let obs = if dead { Value::Null } else { d.obs() };
            steps.push(json!({"act": d.act_label(a), "out": out, "obs": obs}));
            if dead {
                break;
            }
        }
        return Ok(json!({"model": "repair-script", "steps": steps}));
    }
    let path = arg_after(args, "--tlc-out").expect("--tlc-out");
    let g = graph::Graph::load(&path)?;
    let sample = arg_after(args, "--sample").and_then(|s| s.parse().ok());
    let opts = graph::ReplayOpts { sample, seed, max_div: usize::MAX, budget_s: 0 };
    let rep = graph::replay(&g, &mut d, &opts);
    let mut out = rep.to_json("repair");
    let fps = d.all_fps.lock().unwrap();
    out["all_fingerprints"] = Value::Object(fps.iter().map(|(k, v)| (k.clone(), json!({"count": v.0, "example": v.1}))).collect());
    Ok(out)
}
