//! C11 — erasure coding.  Replays the CASE lines of `MC_Shred` (spec/Shred.tla, EC part) into the
//! real shredders: concretises the abstract slice (seeded random bytes of the demanded content
//! class), shreds it with the leader's key, draws a seeded random index subset of the demanded
//! shape, runs `Shredder::deshred` and compares everything the specification states about the
//! outcome.  Expectations come from the TLC output only; this file concretises, runs, projects
//! and compares.

use std::panic::{AssertUnwindSafe, catch_unwind};

use alpenglow::BlockId;
use alpenglow::crypto::merkle::BlockHash;
use alpenglow::crypto::signature::SecretKey;
use alpenglow::shredder::{
    AontShredder, CodingOnlyShredder, DeshredError, PetsShredder, RegularShredder, ShredError,
    Shredder, TOTAL_SHREDS, ValidatedShred,
};
use alpenglow::types::{Slice, SliceIndex, Slot};
use rand::rngs::StdRng;
use rand::{Rng, RngExt, SeedableRng};
use serde_json::{Value, json};
use wincode::SchemaRead;

use crate::cases::{CaseReport, load_tagged};

// ---------------------------------------------------------------- wire mirror (projection only)
#[derive(SchemaRead)]
#[allow(dead_code)]
struct WHeader {
    slot: u64,
    slice_index: u64,
    is_last: bool,
}
#[derive(SchemaRead)]
#[allow(dead_code)]
struct WPayload {
    header: WHeader,
    shred_index: u64,
    data: Vec<u8>,
}
#[derive(SchemaRead)]
enum WType {
    Data(WPayload),
    Coding(WPayload),
}
#[derive(SchemaRead)]
#[allow(dead_code)]
struct WShred {
    payload_type: WType,
    slice_sig: [u8; 64],
    merkle_path: Vec<[u8; 32]>,
}

fn wire(s: &ValidatedShred) -> Vec<u8> {
    wincode::serialize(s.as_shred()).expect("serialize shred")
}

/// (shard size, shred index, is data) of a serialized shred.
fn wire_view(bytes: &[u8]) -> (usize, usize, bool) {
    let w: WShred = wincode::deserialize(bytes).expect("harness wire mirror of Shred is out of date");
    match w.payload_type {
        WType::Data(p) => (p.data.len(), p.shred_index as usize, true),
        WType::Coding(p) => (p.data.len(), p.shred_index as usize, false),
    }
}

// ---------------------------------------------------------------- the four shredders behind one face
type Arr = [Option<ValidatedShred>; TOTAL_SHREDS];

struct Shredders {
    regular: RegularShredder,
    coding_only: CodingOnlyShredder,
    pets: PetsShredder,
    aont: AontShredder,
}

impl Shredders {
    fn new() -> Self {
        Self {
            regular: RegularShredder::default(),
            coding_only: CodingOnlyShredder::default(),
            pets: PetsShredder::default(),
            aont: AontShredder::default(),
        }
    }

    /// Ok(Ok(shreds)) | Ok(Err(kind)) | Err(panic message)
    fn shred(&mut self, v: &str, slice: &Slice, sk: &SecretKey) -> Result<Result<Vec<ValidatedShred>, String>, String> {
        let r = catch_unwind(AssertUnwindSafe(|| match v {
            "regular" => self.regular.shred(slice, sk),
            "coding_only" => self.coding_only.shred(slice, sk),
            "pets" => self.pets.shred(slice, sk),
            "aont" => self.aont.shred(slice, sk),
            _ => panic!("harness: unknown variant {v}"),
        }));
        match r {
            Ok(Ok(a)) => Ok(Ok(a.into_iter().collect())),
            Ok(Err(ShredError::TooMuchData)) => Ok(Err("TooMuchData".to_string())),
            Err(p) => Err(panic_msg(p)),
        }
    }

    fn deshred(&mut self, v: &str, arr: &mut Arr) -> Result<Result<alpenglow::types::ReconstructedSlice, DeshredError>, String> {
        let r = catch_unwind(AssertUnwindSafe(|| match v {
            "regular" => self.regular.deshred(arr),
            "coding_only" => self.coding_only.deshred(arr),
            "pets" => self.pets.deshred(arr),
            "aont" => self.aont.deshred(arr),
            _ => panic!("harness: unknown variant {v}"),
        }));
        r.map_err(panic_msg)
    }

    /// a panic may leave a coder half-configured; start from fresh ones
    fn reset(&mut self) {
        *self = Self::new();
    }
}

fn panic_msg(p: Box<dyn std::any::Any + Send>) -> String {
    if let Some(s) = p.downcast_ref::<&str>() {
        (*s).to_string()
    } else if let Some(s) = p.downcast_ref::<String>() {
        s.clone()
    } else {
        "panic".to_string()
    }
}

/// the specification's error classes
fn err_class(e: DeshredError) -> &'static str {
    match e {
        DeshredError::NotEnoughShreds => "NotEnoughShreds",
        DeshredError::InvalidLayout => "InvalidLayout",
        DeshredError::BadEncoding | DeshredError::InvalidMerkleTree | DeshredError::TooMuchData => "Undecodable",
    }
}

// ---------------------------------------------------------------- concretisation
fn mix(a: u64, b: u64) -> u64 {
    let mut x = a ^ b.wrapping_mul(0x9E37_79B9_7F4A_7C15);
    x ^= x >> 31;
    x = x.wrapping_mul(0xBF58_476D_1CE4_E5B9);
    x ^= x >> 29;
    x
}

fn parent_of(name: &str) -> Option<BlockId> {
    if name == "none" {
        return None;
    }
    let h: BlockHash = alpenglow::crypto::hash::hash(format!("verif-c11-parent-{name}").as_bytes()).into();
    Some((Slot::new(3), h))
}

fn data_of(n: usize, fill: &str, rng: &mut StdRng) -> Vec<u8> {
    let mut d = vec![0u8; n];
    match fill {
        "zero" => {}
        "mark" => d.fill(0x80),
        "ones" => d.fill(0xFF),
        "tailzero" => {
            rng.fill_bytes(&mut d);
            let t = if n == 0 { 0 } else { rng.random_range(1..=n.min(130)) };
            for b in &mut d[n - t..] {
                *b = 0;
            }
            // ... optionally preceded by the marker value itself
            if n > t && rng.random_range(0..2u32) == 0 {
                d[n - t - 1] = 0x80;
            }
        }
        _ => rng.fill_bytes(&mut d), // "rand", "other"
    }
    d
}

fn slice_of(sl: &Value, rng: &mut StdRng) -> Slice {
    let index: SliceIndex = serde_json::from_str(&sl["index"].as_u64().expect("index").to_string()).expect("slice index");
    Slice {
        slot: Slot::new(sl["slot"].as_u64().expect("slot")),
        slice_index: index,
        is_last: sl["last"].as_bool().expect("last"),
        parent: parent_of(sl["parent"].as_str().expect("parent")),
        data: data_of(sl["n"].as_u64().expect("n") as usize, sl["fill"].as_str().expect("fill"), rng),
    }
}

/// k distinct positions out of lo..=hi
fn draw(lo: i64, hi: i64, k: usize, rng: &mut StdRng) -> Vec<usize> {
    if hi < lo {
        assert_eq!(k, 0, "harness: non-empty pick from an empty range");
        return vec![];
    }
    let mut pool: Vec<usize> = (lo as usize..=hi as usize).collect();
    assert!(k <= pool.len());
    for i in 0..k {
        let j = rng.random_range(i..pool.len());
        pool.swap(i, j);
    }
    pool.truncate(k);
    pool
}

// ---------------------------------------------------------------- one case
/// roles of the shredder objects of a worker: the leader's (only ever shreds), the receiver's (only
/// ever deshreds, plus the re-shred check) and, for the history family, the "node" that serves both
const LEADER: usize = 0;
const RECEIVER: usize = 1;
const NODE: usize = 2;

struct Worker {
    inst: [Shredders; 3],
    sk: SecretKey,
    seed: u64,
    rep: CaseReport,
    subsets_run: u64,
    regen_checked: u64,
    histories: u64,
}

fn slice_obs(s: &Slice, want_data: &[u8]) -> Value {
    json!({
        "slot": s.slot.inner(),
        "index": s.slice_index.to_string().parse::<u64>().unwrap_or(u64::MAX),
        "last": s.is_last,
        "parent": s.parent.as_ref().map(|(sl, h)| format!("{}:{}", sl.inner(), crate::world::hash_bytes(h).iter().take(8).map(|b| format!("{b:02x}")).collect::<String>())),
        "n": s.data.len(),
        "data_equal": s.data == want_data,
    })
}

impl Worker {
    fn new(seed: u64) -> Self {
        let mut rng = StdRng::seed_from_u64(seed ^ 0xC11_5EED);
        Self {
            inst: [Shredders::new(), Shredders::new(), Shredders::new()],
            sk: SecretKey::new(&mut rng),
            seed,
            rep: CaseReport::new("shred"),
            subsets_run: 0,
            regen_checked: 0,
            histories: 0,
        }
    }

    fn div(&mut self, case: &Value, what: &str, expected: Value, observed: Value) {
        let i = &case["in"];
        let fp = format!("{}:{}|{}", i["fam"].as_str().unwrap_or("?"), i["inj"].as_str().unwrap_or("?"), what);
        self.rep.diverge(&fp, &[what], case, expected, observed);
    }

    fn run_case(&mut self, idx: u64, case: &Value, subsets: usize) {
        self.run_case_as(idx, case, subsets, LEADER, RECEIVER);
    }

    /// `li` / `ri`: which shredder object plays the leader / the receiver
    fn run_case_as(&mut self, idx: u64, case: &Value, subsets: usize, li: usize, ri: usize) {
        let inp = &case["in"];
        let exp = &case["exp"];
        let v = inp["v"].as_str().expect("v");
        let pv = inp["pv"].as_str().expect("pv");
        let inj = inp["inj"].as_str().expect("inj");
        let fam = inp["fam"].as_str().expect("fam");
        let key = format!("{fam}/{v}/{pv}/{inj}/{}/{}/{}/{}", inp["slice"], inp["pick"], inp["foreign"], inp["slice2"]);
        let cseed = mix(self.seed, idx);
        let mut rng = StdRng::seed_from_u64(cseed);
        let pk = self.sk.to_pk();

        // ---- leader: shred
        let slice_a = slice_of(&inp["slice"], &mut rng);
        let e_sh = &exp["shred"];
        let shreds_a = match self.inst[li].shred(pv, &slice_a, &self.sk) {
            Err(p) => {
                self.inst[li].reset();
                self.rep.case(&format!("{fam}:shred-panic"), key, case);
                self.div(case, "shred.panic", e_sh.clone(), json!({"panic": p}));
                return;
            }
            Ok(Err(e)) => {
                self.rep.case(&format!("{fam}:refused"), key, case);
                if e_sh["ok"].as_bool() != Some(false) || e_sh["err"].as_str() != Some(e.as_str()) {
                    self.div(case, "shred.ok", e_sh.clone(), json!({"ok": false, "err": e}));
                }
                return;
            }
            Ok(Ok(s)) => s,
        };
        if e_sh["ok"].as_bool() != Some(true) {
            self.rep.case(&format!("{fam}:refused"), key, case);
            self.div(case, "shred.ok", e_sh.clone(), json!({"ok": true}));
            return;
        }
        let wire_a: Vec<Vec<u8>> = shreds_a.iter().map(wire).collect();
        let root_a = shreds_a[0].slice_root().clone();
        // shard size and layout of the leader's output
        let ndata = exp["ndata"].as_u64().expect("ndata") as usize;
        let want_shard = e_sh["shard"].as_u64().expect("shard") as usize;
        let mut layout_ok = shreds_a.len() == TOTAL_SHREDS;
        let mut sizes = std::collections::BTreeSet::new();
        for (i, (s, w)) in shreds_a.iter().zip(&wire_a).enumerate() {
            let (sz, si, is_data) = wire_view(w);
            sizes.insert(sz);
            layout_ok &= si == i && is_data == (i < ndata) && s.is_data() == is_data && s.is_coding() != is_data;
            layout_ok &= *s.slice_root() == root_a;
        }
        if sizes.len() != 1 || !sizes.contains(&want_shard) {
            self.div(case, "shred.shard", json!(want_shard), json!(sizes));
        }
        if !layout_ok {
            self.div(case, "shred.layout", json!({"ndata": ndata}), json!("data/coding split, indices or roots of the leader's shreds differ"));
        }
        // the leader's own shreds verify (one full signature check, the others against the commitment)
        let commitment = shreds_a[0].commitment();
        for (i, s) in shreds_a.iter().enumerate() {
            let cached = if i == 0 { None } else { Some(&commitment) };
            if ValidatedShred::try_new(s.as_shred().clone(), cached, &pk).is_err() {
                self.div(case, "shred.invalid", json!("leader shred verifies"), json!({"index": i}));
                break;
            }
        }

        // history step with the node as leader: a shredder object used for nothing else must produce
        // the same shard size, and for the variants without fresh key material the same 64 shreds
        if li != LEADER {
            match self.inst[LEADER].shred(pv, &slice_a, &self.sk) {
                Ok(Ok(other)) => {
                    let same = other.iter().map(wire).zip(&wire_a).all(|(x, y)| x == *y);
                    let same_size = wire_view(&wire(&other[0])).0 == wire_view(&wire_a[0]).0;
                    if !same_size || (exp["det"].as_bool() == Some(true) && !same) {
                        self.div(case, "shred.instance", json!({"det": exp["det"], "shard": want_shard}), json!({"identical": same, "same_shard_size": same_size}));
                    }
                }
                _ => {
                    self.inst[LEADER].reset();
                    self.div(case, "shred.instance", e_sh.clone(), json!("a fresh shredder object answers differently"));
                }
            }
        }

        let e_de = &exp["deshred"];
        if e_de["run"].as_bool() != Some(true) {
            // the specification refuses the second slice of a mix case; nothing to decode
            self.rep.case(&format!("{fam}:not-run"), key, case);
            return;
        }
        // ---- second slice of the same leader (mix injections)
        let mut wire_b: Vec<Vec<u8>> = vec![];
        let mut shreds_b: Vec<ValidatedShred> = vec![];
        if inj == "mixsize" || inj == "mixroot" {
            let slice_b = slice_of(&inp["slice2"], &mut rng);
            match self.inst[li].shred(pv, &slice_b, &self.sk) {
                Ok(Ok(s)) => {
                    wire_b = s.iter().map(wire).collect();
                    let szb = wire_view(&wire_b[0]).0;
                    let want = exp["shred2"]["shard"].as_u64().expect("shard") as usize;
                    if szb != want {
                        self.div(case, "shred.shard", json!(want), json!(szb));
                    }
                    shreds_b = s;
                }
                other => {
                    self.inst[li].reset();
                    self.div(case, "shred.ok", exp["shred2"].clone(), json!(format!("{:?}", other.map(|r| r.map(|_| ())))));
                    return;
                }
            }
        }

        let label = format!(
            "{fam}:{}:{}",
            if inj == "none" { v } else { inj },
            if e_de["ok"].as_bool() == Some(true) { "ok" } else { e_de["err"].as_str().unwrap_or("?") }
        );
        self.rep.case(&label, key, case);

        // ---- receiver: `subsets` random index subsets of the demanded shape
        for sub in 0..subsets {
            self.subsets_run += 1;
            let mut srng = StdRng::seed_from_u64(mix(cseed, 0x5B5E7 + sub as u64));
            let mut held: Vec<usize> = vec![];
            for p in inp["pick"].as_array().expect("pick") {
                held.extend(draw(p["lo"].as_i64().unwrap(), p["hi"].as_i64().unwrap(), p["k"].as_u64().unwrap() as usize, &mut srng));
            }
            held.sort_unstable();
            if held.len() as u64 != exp["held"].as_u64().expect("held") {
                panic!("harness: drew {} positions, the case says {}", held.len(), exp["held"]);
            }
            let nforeign = inp["foreign"].as_u64().unwrap_or(0) as usize;
            let foreign: Vec<usize> = {
                let mut h = held.clone();
                for i in 0..nforeign {
                    let j = srng.random_range(i..h.len());
                    h.swap(i, j);
                }
                h.truncate(nforeign);
                h
            };
            let mut arr: Arr = [const { None }; TOTAL_SHREDS];
            for &i in &held {
                arr[i] = Some(if foreign.contains(&i) { shreds_b[i].clone() } else { shreds_a[i].clone() });
            }
            let before: Vec<Option<Vec<u8>>> = arr
                .iter()
                .enumerate()
                .map(|(i, s)| s.as_ref().map(|_| if foreign.contains(&i) { wire_b[i].clone() } else { wire_a[i].clone() }))
                .collect();
            let ctx = json!({"subset": sub, "held": held, "foreign": foreign});

            let res = self.inst[ri].deshred(v, &mut arr);
            let after: Vec<Option<Vec<u8>>> = arr.iter().map(|s| s.as_ref().map(wire)).collect();
            let (ok, err) = match &res {
                Ok(Ok(_)) => (true, "-".to_string()),
                Ok(Err(e)) => (false, err_class(*e).to_string()),
                Err(p) => {
                    self.inst[ri].reset();
                    (false, format!("panic: {p}"))
                }
            };
            let e_ok = e_de["ok"].as_bool().expect("ok");
            if ok != e_ok {
                self.div(case, "deshred.ok", json!({"ok": e_ok, "err": e_de["err"]}), json!({"ok": ok, "err": err, "at": ctx}));
                continue;
            }
            if !ok && e_de["err"].as_str() != Some(err.as_str()) {
                let what = if err.starts_with("panic") { "deshred.panic" } else { "deshred.err" };
                self.div(case, what, e_de["err"].clone(), json!({"err": err, "detail": format!("{:?}", res.as_ref().map(|r| r.as_ref().err())), "at": ctx}));
            }
            if ok {
                let rs = res.as_ref().unwrap().as_ref().unwrap();
                self.check_slice(case, "deshred.slice", &e_de["slice"], rs, &slice_a, &ctx);
                if *rs.slice_root() != root_a {
                    self.div(case, "deshred.root", json!("root signed by the leader"), json!({"at": ctx}));
                }
            }
            // ---- the array afterwards
            match e_de["after"].as_str().expect("after") {
                "unchanged" => {
                    if after != before {
                        let touched: Vec<usize> = (0..TOTAL_SHREDS).filter(|&i| after[i] != before[i]).collect();
                        self.div(case, "after.touched", json!("unchanged"), json!({"positions_changed": touched, "at": ctx}));
                    }
                }
                _ => {
                    let mut bad_held = vec![];
                    let mut bad_regen = vec![];
                    let mut invalid = vec![];
                    let (mut rd, mut rc) = (0u64, 0u64);
                    for i in 0..TOTAL_SHREDS {
                        match (&before[i], &after[i]) {
                            (Some(b), Some(a)) => {
                                if a != b {
                                    bad_held.push(i);
                                }
                            }
                            (Some(_), None) => bad_held.push(i),
                            (None, None) => bad_regen.push(i),
                            (None, Some(a)) => {
                                if *a != wire_a[i] {
                                    bad_regen.push(i);
                                }
                                let s = arr[i].as_ref().unwrap();
                                if s.is_data() {
                                    rd += 1;
                                } else {
                                    rc += 1;
                                }
                                // accepted from the network under the leader's key, same signed root
                                self.regen_checked += 1;
                                match ValidatedShred::try_new(s.as_shred().clone(), None, &pk) {
                                    Ok(vs) => {
                                        if *vs.slice_root() != root_a || *s.slice_root() != root_a || vs.commitment() != commitment {
                                            invalid.push(i);
                                        }
                                    }
                                    Err(_) => invalid.push(i),
                                }
                            }
                        }
                    }
                    if !bad_held.is_empty() {
                        self.div(case, "after.touched", json!("held shreds untouched"), json!({"positions_changed": bad_held, "at": ctx}));
                    }
                    if !bad_regen.is_empty() {
                        self.div(case, "after.regen", json!("every missing position = the leader's shred"), json!({"positions": bad_regen, "at": ctx}));
                    }
                    if !invalid.is_empty() {
                        self.div(case, "after.invalid", json!("regenerated shreds verify under the leader's key and root"), json!({"positions": invalid, "at": ctx}));
                    }
                    let want = (e_de["regen_data"].as_u64().unwrap(), e_de["regen_coding"].as_u64().unwrap());
                    if (rd, rc) != want {
                        self.div(case, "after.count", json!({"regen_data": want.0, "regen_coding": want.1}), json!({"regen_data": rd, "regen_coding": rc, "at": ctx}));
                    }
                }
            }
            // ---- the receiver's object shreds the reconstructed slice: same verdict and shard size as the
            // leader's, and (no fresh key material) the leader's 64 shreds byte for byte
            // (not inside a history: there the node serves exactly the calls of its log)
            if ok && sub == 0 && inj == "none" && ri != NODE {
                let rs: Slice = (**res.as_ref().unwrap().as_ref().unwrap()).clone();
                match self.inst[ri].shred(v, &rs, &self.sk) {
                    Ok(Ok(again)) => {
                        let wire_r: Vec<Vec<u8>> = again.iter().map(wire).collect();
                        let same = wire_r == wire_a;
                        let size = wire_view(&wire_r[0]).0;
                        if size != want_shard || (exp["det"].as_bool() == Some(true) && !same) {
                            self.div(case, "reshred.shreds", json!({"det": exp["det"], "shard": want_shard}), json!({"identical": same, "shard": size, "at": ctx}));
                        }
                    }
                    Ok(Err(e)) => self.div(case, "reshred.ok", e_sh.clone(), json!({"ok": false, "err": e, "at": ctx})),
                    Err(p) => {
                        self.inst[ri].reset();
                        self.div(case, "reshred.panic", e_sh.clone(), json!({"panic": p, "at": ctx}));
                    }
                }
            }
            // ---- forget what was held, decode again from regenerated shreds only
            let again = &e_de["again"];
            if ok && again["run"].as_bool() == Some(true) && ri != NODE {
                for &i in &held {
                    arr[i] = None;
                }
                let before2: Vec<Option<Vec<u8>>> = arr.iter().map(|s| s.as_ref().map(wire)).collect();
                let res2 = self.inst[ri].deshred(v, &mut arr);
                let ok2 = matches!(res2, Ok(Ok(_)));
                if res2.is_err() {
                    self.inst[ri].reset();
                }
                if Some(ok2) != again["ok"].as_bool() {
                    self.div(case, "again.ok", again.clone(), json!({"ok": ok2, "res": format!("{:?}", res2.as_ref().map(|r| r.as_ref().err())), "at": ctx}));
                } else if ok2 {
                    let rs = res2.as_ref().unwrap().as_ref().unwrap();
                    self.check_slice(case, "again.slice", &again["slice"], rs, &slice_a, &ctx);
                    let full: Vec<Option<Vec<u8>>> = arr.iter().map(|s| s.as_ref().map(wire)).collect();
                    if full.iter().zip(&wire_a).any(|(x, y)| x.as_ref() != Some(y)) {
                        self.div(case, "again.regen", json!("the leader's 64 shreds"), json!({"at": ctx}));
                    }
                } else {
                    let now: Vec<Option<Vec<u8>>> = arr.iter().map(|s| s.as_ref().map(wire)).collect();
                    if now != before2 {
                        self.div(case, "again.touched", json!("unchanged"), json!({"at": ctx}));
                    }
                }
            }
        }
    }

    /// one history: a fresh "node" object serves every step, as leader or as receiver
    fn run_history(&mut self, idx: u64, hist: &Value) {
        self.inst[NODE] = Shredders::new();
        self.histories += 1;
        for (k, step) in hist["steps"].as_array().expect("steps").iter().enumerate() {
            let (li, ri) = match step["node"].as_str() {
                Some("leader") => (NODE, RECEIVER),
                Some("receiver") => (LEADER, NODE),
                other => panic!("harness: unknown role {other:?}"),
            };
            let before = self.rep.div_count;
            self.run_case_as(mix(idx, 0x4157 + k as u64), step, 1, li, ri);
            if self.rep.div_count != before {
                // attach the whole history to what was just recorded
                if let Some(d) = self.rep.divergences.last_mut() {
                    d["history"] = json!({"step": k, "steps": hist["steps"].as_array().unwrap().iter().map(|s| json!({"node": s["node"], "n": s["in"]["slice"]["n"], "held": s["exp"]["held"]})).collect::<Vec<_>>()});
                }
                break; // the object may be broken from here on; later steps would only echo it
            }
        }
    }

    fn check_slice(&mut self, case: &Value, what: &str, e: &Value, rs: &Slice, orig: &Slice, ctx: &Value) {
        // the specification returns an abstract slice; its concretisation is `orig` iff it equals the case's slice
        let want_same = *e == case["in"]["slice"];
        let want = json!({
            "slot": e["slot"], "index": e["index"], "last": e["last"],
            "parent": parent_of(e["parent"].as_str().unwrap_or("none")).map(|(sl, h)| format!("{}:{}", sl.inner(), crate::world::hash_bytes(&h).iter().take(8).map(|b| format!("{b:02x}")).collect::<String>())),
            "n": e["n"], "data_equal": true,
        });
        let got = slice_obs(rs, &orig.data);
        if !want_same || want != got || rs.parent != orig.parent {
            self.div(case, what, want, json!({"got": got, "at": ctx}));
        }
    }
}

// ---------------------------------------------------------------- entry point
pub struct Opts {
    pub seed: u64,
    pub threads: usize,
    pub subsets_shape: usize,
    pub subsets_sweep: usize,
    pub subsets_inject: usize,
}

pub fn replay(path: &str, hist_path: Option<&str>, o: &Opts) -> anyhow::Result<Value> {
    let cases = load_tagged(path, "CASE")?;
    let n = cases.len();
    let hists = std::sync::Arc::new(match hist_path {
        Some(p) => load_tagged(p, "HIST")?,
        None => vec![],
    });
    let nh = hists.len();
    let threads = o.threads.max(1);
    let cases = std::sync::Arc::new(cases);
    let mut handles = vec![];
    for t in 0..threads {
        let cases = cases.clone();
        let hists = hists.clone();
        let (seed, ss, sw, si) = (o.seed, o.subsets_shape, o.subsets_sweep, o.subsets_inject);
        handles.push(std::thread::spawn(move || {
            let mut w = Worker::new(seed);
            for (idx, c) in cases.iter().enumerate() {
                if idx % threads != t {
                    continue;
                }
                let k = match c["in"]["fam"].as_str() {
                    Some("shape") => ss,
                    Some("sweep") => sw,
                    _ => si,
                };
                w.run_case(idx as u64, c, k.max(1));
            }
            for (idx, h) in hists.iter().enumerate() {
                if idx % threads == t {
                    w.run_history((1u64 << 40) + idx as u64, h);
                }
            }
            w
        }));
    }
    let mut total = CaseReport::new("shred");
    let (mut subsets, mut regen, mut histories) = (0u64, 0u64, 0u64);
    for h in handles {
        let w = h.join().map_err(|p| anyhow::anyhow!("harness thread failed: {}", panic_msg(p)))?;
        subsets += w.subsets_run;
        regen += w.regen_checked;
        histories += w.histories;
        total.cases += w.rep.cases;
        total.distinct.extend(w.rep.distinct);
        total.div_count += w.rep.div_count;
        for (k, v) in w.rep.fingerprints {
            *total.fingerprints.entry(k).or_default() += v;
        }
        for (k, v) in w.rep.hist {
            *total.hist.entry(k).or_default() += v;
        }
        for d in w.rep.divergences {
            if total.divergences.len() < 40 {
                total.divergences.push(d);
            }
        }
        for s in w.rep.samples {
            if total.samples.len() < 3 {
                total.samples.push(s);
            }
        }
    }
    let mut out = total.to_json();
    out["loaded"] = json!(n);
    out["histories_loaded"] = json!(nh);
    out["histories"] = json!(histories);
    out["subsets"] = json!(subsets);
    out["regenerated_shreds_verified"] = json!(regen);
    Ok(out)
}

fn arg_after(args: &[String], name: &str) -> Option<String> {
    args.iter().position(|a| a == name).and_then(|i| args.get(i + 1).cloned())
}

/// `replay-shred --tlc-out <file> [--hist-out <file>] [--threads N] [--subsets-shape K] [--subsets-sweep K] [--subsets-inject K]`
pub fn run(args: &[String], seed: u64) -> anyhow::Result<Value> {
    let path = arg_after(args, "--tlc-out").expect("--tlc-out");
    let num = |name: &str, default: usize| arg_after(args, name).and_then(|s| s.parse().ok()).unwrap_or(default);
    let o = Opts {
        seed,
        threads: num("--threads", 4),
        subsets_shape: num("--subsets-shape", 4),
        subsets_sweep: num("--subsets-sweep", 1),
        subsets_inject: num("--subsets-inject", 2),
    };
    replay(&path, arg_after(args, "--hist-out").as_deref(), &o)
}
