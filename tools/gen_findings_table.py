#!/usr/bin/env python3
"""Regenerates the table of section 10.4 of DESIGN.md from known_findings.json."""
import json, re
kf = json.load(open("/verif/known_findings.json"))["findings"]
rows = ["| id | property | status | what failed (with the replay fingerprint / reproduction) |", "|---|---|---|---|"]
for f in kf:
    what = re.sub(r"^fixed: property=\S+( \(also [^)]*\))? \S+ ", "", f["what"])
    st = f"fixed `{f['commit']}`" if f["status"] == "fixed" else f["status"]
    rows.append(f"| {f['id']} | {f['property']} | {st} | {what.replace('|', chr(92) + '|')} |")
d = open("/verif/DESIGN.md").read()
i = d.index("| id | property | status | what failed")
j = d.index("\n\n", i)
d = d[:i] + "\n".join(rows) + d[j:]
open("/verif/DESIGN.md", "w").write(d)
print(len(kf), "findings")
