#!/bin/bash
# tools/eval_mutant.sh <name> <patch.diff> <PROP> [<PROP> ...]
# Evaluates a seeded change on a scratch copy: /tmp/alt-<name>/{repo,harness,work,evidence}.
# Prints one line per property:  <PROP> exit=<rc> <first VIOLATION/OK/TOOL-ERROR line>
set -u
name=$1; patch=$2; shift 2
root=/tmp/alt-$name
rm -rf "$root"; mkdir -p "$root"
git -C /repo worktree add --detach "$root/repo" HEAD >/dev/null 2>&1 || { echo "worktree failed"; exit 2; }
if [ "$patch" != "none" ]; then
  git -C "$root/repo" apply "$patch" 2>/dev/null || git -C "$root/repo" apply --3way "$patch" || { echo "patch does not apply"; git -C /repo worktree remove --force "$root/repo"; exit 2; }
fi
mkdir -p "$root/harness"
rsync -a --exclude target/debug/incremental /verif/harness/ "$root/harness/"
sed -i "s#path = \"/repo\"#path = \"$root/repo\"#" "$root/harness/Cargo.toml"
for p in "$@"; do
  out=$(cd /verif && VERIF_ALT_ROOT="$root" timeout 1500 bin/check "$p" --tier ${TIER:-quick} 2>&1)
  rc=$?
  line=$(echo "$out" | grep -E "VIOLATION|^OK|TOOL-ERROR|KNOWN" | head -3 | tr '\n' ' ')
  fp=$(echo "$out" | grep -E "fingerprint:" | head -4 | tr '\n' ' ')
  echo "$p exit=$rc $line $fp"
done
if [ "${KEEP:-0}" != "1" ]; then
  git -C /repo worktree remove --force "$root/repo" >/dev/null 2>&1
  rm -rf "$root"
fi
