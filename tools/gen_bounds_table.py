#!/usr/bin/env python3
"""Regenerates the table of section 10.5 of DESIGN.md from the evidence files of the last run."""
import glob, json
rows = ["| check | tier | TLC states / transitions (all models of the check) | walks / cases / traces replayed or validated against the code | models | wall |",
        "|---|---|---|---|---|---|"]
for f in sorted(glob.glob("/verif/evidence/C*.json")):
    e = json.load(open(f)); c = e["coverage"]
    rows.append(f"| {e['property_id']} | {e['tier']} | {c['states']:,} / {c['transitions']:,} | {c['traces_validated_against_impl']:,} | "
                f"{len(c.get('models', []))} | {e['wall_s']:.0f} s |")
d = open("/verif/DESIGN.md").read()
i = d.index("### 10.5 Measured bounds")
j = d.index("### 10.6", i)
head = ("### 10.5 Measured bounds (generated from the evidence files of the last run in /verif; machine shared with other work)\n\n"
        "What each model contains is in MANIFEST.json (level text) and in the evidence file (`coverage.models`: one entry per TLC\n"
        "run with its states, transitions, wall time; `coverage.notes`: simulated executions, judged windows, vacuity witnesses).\n\n")
old = d[i:j]
k = old.find("Thorough tier, last complete run")
keep = old[k:] if k >= 0 else ""
d = d[:i] + head + "\n".join(rows) + "\n\n" + keep + d[j:]
open("/verif/DESIGN.md", "w").write(d)
print(len(rows) - 2, "checks")
