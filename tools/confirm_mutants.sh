#!/bin/bash
# tools/confirm_mutants.sh <outdir> ...   (each outdir has patch.diff + demo.diff)
# Confirms in a scratch worktree: suite passes with the mutant; demo fails with it, passes without it.
set -u
wt=/tmp/confirm-wt
if [ ! -d $wt ]; then git -C /repo worktree add --detach $wt HEAD >/dev/null 2>&1; fi
cd $wt && git checkout -q --detach $(git -C /repo rev-parse HEAD) && git checkout -- . && git clean -fdq -e target
for d in "$@"; do
  name=$(echo $d | sed 's#/tmp/##; s#/#_#g')
  res=$d/CONFIRM.txt
  : > $res
  git checkout -- . ; git clean -fdq -e target
  if ! git apply $d/patch.diff 2>>$res; then echo "$name: patch does not apply" | tee -a $res; continue; fi
  suite=$(cargo test --offline --lib -j 6 2>&1 | grep -E "^test result|^test .* FAILED" | grep -v "ping_data\|stake_distribution" | tr '\n' ' ')
  echo "suite_with_mutant: $suite" >> $res
  tests=$(grep -E '^\+\s*(async )?fn [a-z_0-9]+\(' $d/demo.diff | sed -E 's/^\+\s*(async )?fn ([a-z_0-9]+)\(.*/\2/' | sort -u | tr '\n' ' ')
  if ! git apply $d/demo.diff 2>>$res; then echo "$name: demo does not apply on mutant" | tee -a $res; continue; fi
  with=""
  for t in $tests; do r=$(cargo test --offline --lib -j 6 $t 2>&1 | grep -E "^test .*$t.* \.\.\. (ok|FAILED)" | tr '\n' ' '); with="$with $r"; done
  echo "demo_with_mutant: $with" >> $res
  git apply -R $d/patch.diff
  without=""
  for t in $tests; do r=$(cargo test --offline --lib -j 6 $t 2>&1 | grep -E "^test .*$t.* \.\.\. (ok|FAILED)" | tr '\n' ' '); without="$without $r"; done
  echo "demo_without_mutant: $without" >> $res
  echo "== $name"; cat $res
done
git checkout -- . ; git clean -fdq -e target
