#!/usr/bin/env python3
"""Writes /verif/MANIFEST.json from the table below (single source of truth for the interface)."""
import json
import os
import subprocess

VERIF = os.path.dirname(os.path.dirname(os.path.abspath(__file__)))

HOOK_COMMITS = subprocess.run(
    ["git", "-C", "/repo", "log", "--format=%H %s", "--grep=^verif hooks"],
    capture_output=True, text=True).stdout.strip().splitlines()

TB = ("TLC explores the TLA+ model exhaustively within the stated constants; the binding to the code is "
      "by replaying every (or a seeded sample of the) model transition(s) into the real object and "
      "comparing outputs and projected state after every step")

CHECKS = {
    "C03": dict(
        text="TLC checks CertAsSoonAs/CertOnlyWhen/CertSignersJustified/AtMostOnce on the single-slot pool model "
             "(3-5 validators, stakes landing exactly on 40/60/80%, all five vote kinds, two hashes, received "
             "certificates interleaved); every model transition is replayed into PoolImpl and each created "
             "certificate must equal, byte for byte, the certificate aggregated from exactly the expected votes "
             "and must pass ValidatedCert::try_new. The same transitions are replayed with all stakes scaled to the top of the u64 range (total 1.5e19-1.8e19): thresholds depend on ratios only. Code -> spec on real executions: every pool call and Votor step of every correct node of simulated networks (Byzantine equivocation / noise, loss, crashes, harness-triggered standstill recovery) is validated by TLC as a transition of Pool.tla / Votor.tla (Trace_Node.tla); mismatches in this property's observable are reported here.",
        note="BLS soundness (blst) trusted; bounded validator counts; " + TB,
        technique="TLA+ spec of the pool + TLC exhaustive BFS + spec->code transition replay",
        design="4 C03"),
    "C04": dict(
        text="TLC checks that the operational admission verdict equals the declarative conflict/equivalence table "
             "for every offered vote in every reachable accepted-vote state (AdmissionTable, CountedOnce), incl. "
             "slot-bound verdicts around pruning; every (state, vote) pair is replayed into Pool::add_vote. Code -> spec on real executions: every pool call and Votor step of every correct node of simulated networks (Byzantine equivocation / noise, loss, crashes, harness-triggered standstill recovery) is validated by TLC as a transition of Pool.tla / Votor.tla (Trace_Node.tla); mismatches in this property's observable are reported here.",
        note="votes are validly signed (C09 covers admission of signatures); " + TB,
        technique="TLA+ spec + TLC exhaustive BFS + spec->code transition replay",
        design="4 C04"),
    "C06": dict(
        text="TLC checks S2N/S2S only-if and as-soon-as invariants over all arrival orders of votes, own vote, "
             "block registration and parent certificate (received notar/nf/ff or formed by votes), two competing "
             "children of one parent; every transition replayed into PoolImpl comparing the emitted events. A low-slot scenario puts the parent into the pruning watermark slot (its first certificate also finalizes it). Code -> spec on real executions: every pool call and Votor step of every correct node of simulated networks (Byzantine equivocation / noise, loss, crashes, harness-triggered standstill recovery) is validated by TLC as a transition of Pool.tla / Votor.tla (Trace_Node.tla); mismatches in this property's observable are reported here.",
        note="parent certification follows the code: certificate held in the parent's retained slot; " + TB,
        technique="TLA+ spec + TLC exhaustive BFS + spec->code transition replay",
        design="4 C06"),
}

CHECKS.update({
    "C07": dict(
        text="TLC checks the incremental parent-ready tracker against the declarative relation (ReadySound, "
             "ReadyComplete, PRInputsJustified/Complete, AnnouncedInQuery, AtMostOnce) over every delivery order of "
             "consistent certificate universes spanning two windows (exhaustive) and three windows (simulation), "
             "interleaved with block registrations, finalization-driven pruning and waiter registration; every "
             "transition is replayed into PoolImpl comparing ParentReady events, parents_ready() and woken waiters. Code -> spec on real executions: every pool call and Votor step of every correct node of simulated networks (Byzantine equivocation / noise, loss, crashes, harness-triggered standstill recovery) is validated by TLC as a transition of Pool.tla / Votor.tla (Trace_Node.tla); mismatches in this property's observable are reported here.",
        note="certificate universes consistent with <20% Byzantine stake; ties inside one finalization step are "
             "compared as 'one of'; " + TB,
        technique="TLA+ spec + TLC exhaustive BFS and simulation + spec->code transition replay",
        design="4 C07"),
    "C08": dict(
        text="TLC checks FinalizedIff, HighestIsFinalized, WatermarkDecided, AncestorsFinalized, RetainedBounded and "
             "bound verdicts over every delivery order of certificates / block-parent registrations (final before "
             "notar, children before parents, gaps, certificates for implicitly decided slots); every transition is "
             "replayed into PoolImpl comparing finalized_slot, the watermark, per-slot finality status, retained "
             "slots and held certificates after every step. Code -> spec on real executions: every pool call and Votor step of every correct node of simulated networks (Byzantine equivocation / noise, loss, crashes, harness-triggered standstill recovery) is validated by TLC as a transition of Pool.tla / Votor.tla (Trace_Node.tla); mismatches in this property's observable are reported here.",
        note="certificate universes consistent with <20% Byzantine stake; " + TB,
        technique="TLA+ spec + TLC exhaustive BFS and simulation + spec->code transition replay",
        design="4 C08"),
    "C18": dict(
        text="recover_from_standstill is a transition enabled in every model state: TLC checks BundleProvesFinalized "
             "and FreshPoolCatchesUp (a fresh pool fed only the bundle reaches the same highest slot and ready parents); "
             "the replay invokes it after every prefix of every history, validates every bundled certificate and vote "
             "as a receiver would, feeds them to a second fresh PoolImpl and compares. On simulated executions the harness triggers recover_from_standstill at every node every few virtual seconds; every bundle must equal StandstillBundle of the pool state reached through the validated trace and Votor must re-broadcast all of it (Trace_Node.tla).",
        note="Votor's forwarding of the bundle is covered by the Votor model (C05); " + TB,
        technique="TLA+ spec + TLC exhaustive BFS and simulation + spec->code transition replay",
        design="4 C18"),
})

CHECKS.update({
    "C05": dict(
        text="TLC checks the vote-casting rules (OneInitialVote, RulesAtCastTime: parent acceptable / final only for "
             "the own notarized block after its certificate / fallback only after the safe event, NoFinalInBadSlot, "
             "FallbackOnlyAfterVoted, OwnVotesNeverSlashable, StandstillForwarded) on the Votor model under every "
             "order of pool events, blockstore events (several blocks per slot, children before parents), timeouts, "
             "across a window boundary and pruning; every (state, event) transition is replayed by single-stepping the "
             "real Votor (hooks) and comparing the broadcast votes/certificates (incl. signer index) and the per-slot state. "
             "MC_Node.tla composes Pool.tla and Votor.tla as consensus.rs wires them (FIFO event channels, own votes looped back "
             "through the network with arbitrary delay): there the rules hold without assumptions about the pool, own votes are "
             "never refused by the own pool, and the real PoolImpl + Votor pair is replayed against it. Code -> spec on real executions: every pool call and Votor step of every correct node of simulated networks (Byzantine equivocation / noise, loss, crashes, harness-triggered standstill recovery) is validated by TLC as a transition of Pool.tla / Votor.tla (Trace_Node.tla); mismatches in this property's observable are reported here. The voting rules are also evaluated on everything each node broadcast in those executions. A third Votor universe starts behind a prefix of announced blocks (own notar votes in slots 1..3) and explores the window boundary: the next window's first block before / without ParentReady.",
        note="pool guarantees towards Votor are assumed in MC_Votor (established by C06) and dropped in MC_Node; " + TB,
        technique="TLA+ spec of Votor + TLC exhaustive BFS (bounded event count) + spec->code transition replay",
        design="4 C05"),
})

CHECKS.update({
    "C15": dict(
        text="Merkle.tla models the tree over an ideal injective hash (normal-form terms, empty subtrees as atoms); TLC "
             "enumerates every tree size 1..9 (17 thorough) x three leaf patterns x every leaf index x claimed indices "
             "inside and beyond the width (incl. i+m*2^h, i+2^20) x changed leaf / root / every single proof element / "
             "shortened, lengthened and 31..34-element proofs, for both verifiers, and checks that the intended verifier "
             "agrees with the declarative meaning (VerifyIff, LastIff, CreatedProofVerifies, LengthLimit, AlteredRejected); "
             "every case is concretised with real hashes and the verdicts of check_proof / check_proof_last, the created "
             "proof and the root are compared with the spec's. Genuine proofs of the maximal length with one more element appended must be rejected (not truncated).",
        note="SHA-256 collision resistance trusted; tree sizes bounded (structured families, not all of 1..1024); " + TB,
        technique="TLA+ spec over an ideal hash + TLC case enumeration + spec->code case replay",
        design="4 C15"),
})

CHECKS.update({
    "C01": dict(
        text="(1) AlpenglowAbs.tla - the voting rules of Votor and the pool's threshold conditions over the monotone set of "
             "sent votes, all Byzantine votes present from the start - is model-checked exhaustively (N=4, stakes 2,2,2,1, "
             "14% Byzantine, fork-shaped block tree, 2-3 slots, W=4 and W=2): Agreement, SingleChain, NoFinalAndSkip and the "
             "supporting lemmas hold in every reachable state. (2) The real Votor is replayed against Votor.tla. (3) N real "
             "Alpenglow nodes run on in-memory networks under virtual time with a seeded adversarial scheduler (loss, "
             "duplication, reordering, chaotic prefix), crashes and equivocating Byzantine validators; every broadcast vote, "
             "held certificate and finalization report is recorded and TLC validates the execution against AlpenglowAbs "
             "(every correct vote must be an enabled abstract action; certificates and finalizations must be justified; "
             "agreement / one chain / no final+skip evaluated after every event). (4) Every pool call and Votor step of every correct node in those executions is validated as a transition of Pool.tla / Votor.tla (Trace_Node.tla); one execution runs with stakes at the top of the u64 range, and the pool safe-to-* model is replayed at that scale.",
        note="bounded N and slots, no inductive proof; ideal signatures; the simulator's Byzantine validators equivocate on votes "
             "and, as leaders, show two different blocks per slot to different halves of the network; 'finalized and skip-certified' is read as DIRECT "
             "finalization (TLC shows an indirectly finalized ancestor's slot can legitimately carry a skip certificate); " + TB,
        technique="TLA+ abstract protocol spec + TLC exhaustive BFS; code->spec trace validation of simulated multi-node executions; Votor replay",
        design="4 C01"),
    "C02": dict(
        text="Design level: MC_AbsProgress.tla adds proposing leaders, crashed validators, an asynchronous prefix (any "
             "interleaving, timeouts at any time) and a timely phase (timeouts fire only when no message-driven step is possible) "
             "to AlpenglowAbs; the horizon is finite and the state monotone, so progress is decided exhaustively as a safety "
             "property: every terminal state must satisfy the goal (TLC deadlock detection), for silent and noisy Byzantine "
             "validators. Code level: full-node executions (chaotic prefix with loss/reordering, then all delays <= 100 ms; < 20% crashed and < 20% "
             "Byzantine silent or noisy; faulty leaders at rotating positions) are validated event by event against "
             "AlpenglowAbs (Trace_Progress.tla) and, at the end of the trace, TLC evaluates the progress goal on the windows "
             "that started after stabilisation: every slot of a correct live leader's window finalized at every correct live "
             "node and not skip-certified, by a fast-finalization certificate when >= 80% of the stake is responsive; windows of "
             "crashed / silent leaders skip-certified; highest finalized slot keeps up. An execution with an equivocating leader is judged as well (correct leaders behind it must still be finalized); every node step is validated against Pool.tla / Votor.tla (Trace_Node.tla); timer arming is compared in the Votor replay. Producer.tla replay: a correct leader's slices close and its block completes at the specified step with the READY parent as effective parent, whenever ParentReady arrives relative to slice production. VotorTimers.tla: the timeout schedule of a window (crashed-leader timeout, then one per slot, one block time apart; rule = accumulated sleeps) against the instants at which the real timers fire on the paused clock (durations read off the code). The pool safe-to-* model is replayed for missing events; one execution has a validator with most of the stake (its own Rotor relay).",
        note="virtual time with the real timeout constants; the adequacy of the constants on a real network is not decided; "
             "sampled schedules (seeds), not all of them; a vacuity guard requires judged windows",
        technique="TLC exhaustive BFS of the abstract protocol with leaders (progress as terminal-state property); code->spec trace validation (Trace_Progress.tla) of simulated multi-node executions",
        design="4 C02"),
    "C11": dict(
        text="Shred.tla: (i) the padding/shard arithmetic of reed_solomon.rs transcribed over integers and checked by TLC for every "
             "coded length 0..MAX+64 (no underflow, 32 even shards <= 1024 bytes, unpad(pad(L)) = L, limit exact), (ii) a symbolic "
             "byte-level pad/chunk/unpad round trip, (iii) the receiver (deshred) as a case structure over held shapes (d data, c "
             "coding) per shredder variant with all C11 predicates checked on every enumerated case. Every case is replayed into "
             "the four real shredders with seeded payload bytes and index subsets: verdicts, shard sizes, reconstructed slice, "
             "byte-identical regenerated shreds accepted by ValidatedShred::try_new, untouched array on error.",
        note="case structure exhaustive, payload bytes and index subsets sampled (not all C(64,32)); GF(2^16) arithmetic in "
             "reed-solomon-simd trusted; " + TB,
        technique="TLA+ spec (integer transcription + receiver model) + TLC case enumeration + spec->code case replay",
        design="4 C11"),
    "C17": dict(
        text="Sampler.tla states the per-draw guarantees as integer predicates (size, membership, zero-weight never drawn, >= "
             "floor(stake*k/Total) seats under FA1/FA2, <= ceil(max_samples) seats under decaying acceptance, determinism, "
             "constructibility). TLC checks them for consistency/satisfiability on every validator set with N<=4, stakes 0..8, "
             "k<=8 and emits each case; every shipped strategy (as built by Rotor::new/new_fa1, Turbine, ...) is constructed "
             "twice and drawn for several seeds per case and compared; draws over generated distributions (equal, heavy-tailed, "
             "dominant, Total/k-boundary, lamport scale; N up to 2000) are recorded and each event is judged by TLC "
             "(Trace_Sampler.tla). WeightedShuffle (Turbine): permutation incl. zero-stake validators last, prefix / continuation / removal consistency, determinism, constructible for every validator count 1..300 (thorough: up to 4120 and lamport scale).",
        note="floor guarantee decided by TLC only for stake*k < 2^31; random sources sampled (seeds); five constructor/rejection "
             "panics are recorded as known findings (C17-*), three were fixed; statistical quality not judged",
        technique="declarative TLA+ predicates; TLC small-case enumeration + spec->code case replay; code->spec trace validation of recorded draws",
        design="4 C17"),
})

CHECKS.update({
    "C19": dict(
        text="Wire.tla models every protocol message as an ordered list of typed fields whose sizes are functions of N, "
             "certificate shape, shredder and slice payload length, plus the sequential decoder, encode-after-decode and 20 "
             "grammar-level malformed classes with their byte edits; TLC checks FitsDatagram (max 1389 bytes), RoundTrip, "
             "StrictRejected and NormalForm on every case (all N in 1..2048, every slice data length in thorough, every class at "
             "every field); each emitted case is built with real keys / aggregation / shredders / proofs and the real encoder's "
             "size and the decoder's verdict, value, re-encoding and fixed point are compared with the spec's.",
        note="grammar-level classes only (no arbitrary byte strings; BLS point validity opaque); quick replays a seeded subset "
             "of N and size classes while TLC still checks all N; " + TB,
        technique="TLA+ layout/decoder spec + TLC case enumeration + spec->code case replay into the real encoder/decoder",
        design="4 C19"),
})

CHECKS.update({
    "C09": dict(
        text="Auth.tla is a signature algebra with ideal signatures: declarative AdmitVote / AdmitCert, honest constructors, "
             "and ~30 alteration operators (kind, slot, hash, signer incl. out of range, mask-only / aggregate-only changes, "
             "signatures swapped across payloads / signers / halves, bitmask length != N, empty and missing halves, every "
             "re-tagging incl. notar -> fast-final between 60 and 80 %, declared stake, signer sets +-1 around each threshold, a "
             "signer in both halves). TLC checks MutationRejected, DeclaredStakeIrrelevant, AdmittedIffHonest, DistinctStakeOnly, "
             "NoUpgradeBelowStrong, OutOfRangeRejected on every (message, alteration) case (pairs of alterations in thorough); "
             "every case is assembled as real wire bytes from real BLS signatures and run through decode + "
             "ValidatedVote/ValidatedCert::try_new under catch_unwind; admitted/refused must equal the spec's verdict, a panic is a "
             "divergence; honest cases are cross-checked byte for byte against the real constructors.",
        note="epochs N in {1,3,4,5} with boundary stakes; ideal-signature assumption (blst trusted: rogue keys, malformed points "
             "not covered); error kind recorded, not compared; " + TB,
        technique="TLA+ signature algebra + TLC case enumeration + spec->code case replay with real keys",
        design="4 C09"),
})

CHECKS.update({
    "C10": dict(
        text="NodeIO.tla models the five interfaces as validation pipelines over hostile-but-well-formed input classes; every "
             "assertion / arithmetic site of a later stage reachable from an interface is a requirement on what the earlier "
             "stages let through, and TLC checks NoPanic and StillServing for every input sequence (and that the pre-repair "
             "validation violates them). At code level real nodes run with a Byzantine validator that, per observed slot, "
             "sends hostile votes (far-future / genesis slots, out-of-range signer, foreign key), unsolicited and mismatched "
             "repair responses, repair requests with unknown blocks / maximal indices / unknown senders and bursts of oversized "
             "transactions, and as leader disseminates validly signed malformed blocks (parent in a later / the same slot, "
             "undecodable payload, first slice without parent, contradictory slices, unknown parent); every panic anywhere in "
             "the process is a violation and the execution must still satisfy the progress goal of Trace_Progress.tla. Every node step of those executions is also validated against Pool.tla / Votor.tla (Trace_Node.tla). Component model Producer.tla: the leader's block production with exact slice byte accounting; every interleaving of transactions (boundary sizes, oversized), ticks and ParentReady (same or other parent) is checked by TLC (NoOverflow, NoPanic, one last slice, at most one parent switch, effective parent = ready parent, transaction conservation, NeverStuck) and every transition is replayed into the real BlockProducer (real block_production_loop, wait_for_first_slot, PoolImpl, BlockstoreImpl, shredder) on the paused clock; the transcription of the pre-repair code must violate NoOverflow.",
        note="byte-level malformation below the wire grammar is not covered (C19 covers grammar-level classes); sampled "
             "schedules; hostile repair responses are unsolicited or mismatched (solicited-but-forged ones: C14); OS/UDP errors not covered",
        technique="TLA+ pipeline model + TLC BFS; hostile-traffic simulation of real nodes with panic capture and code->spec trace validation",
        design="4 C10"),
})

CHECKS.update({
    "C20": dict(
        text="ExecState.tla: an implementation-shaped trie (insert with split chains, remove with cascading collapse), the ordinary "
             "ordered map as ghost, an ideal multiset lattice hash and the placeholder engine (pending/known parents, fold over the "
             "transaction sequence, parent-hash fallback, finalize/prune). TLC checks MapGet/MapLength/MapIter, ShapeCanonical, "
             "EqIffSameContents, LtHashMatches, ForkIsolation and the engine invariants on every reachable state of small models and "
             "dumps every transition; they are replayed into real State / LtHash / DummyExecution objects in three key layouts (up to "
             "245 shared prefix bits), comparing get/len/iter, the == matrix between forks, commitment equality classes, incremental = "
             "recomputed hash and rebuilt-state equality after every step.",
        note="bounds: <= 4 forks, 7 keys, 3 values, 5 blocks; SHA-256 / lattice-hash collision resistance trusted; the concrete fold "
             "encoding is not pinned (equality classes are compared); " + TB,
        technique="TLA+ spec + TLC exhaustive BFS and simulation + spec->code transition replay",
        design="4 C20"),
})

CHECKS.update({
    "C16": dict(
        text="Dissemination.tla: leader send and forwarding rules of Rotor / Turbine / trivial dissemination under ONE global routing "
             "function; TLC picks the protocol, N (2..6, 7 thorough), the fanout and every possible routing function / tree and "
             "explores every interleaving of sends and deliveries: EveryoneReceives, ExactlyOnceTurbine, OneRelayBroadcastRotor hold "
             "in every terminal state. Code->spec: three independently constructed instances per validator and kind (Rotor::new, "
             "Rotor::new_fa1, Turbine with several fanouts; construction and query order shuffled, caches re-queried; incl. "
             "instances switched with with_sampler / with_fanout after routing under an outdated configuration) run on a "
             "recording network; TLC validates every recorded send against the spec with the routing function UNLOGGED (inferred "
             "from first use): any instance acting inconsistently is an agreement divergence, the delivery predicates are evaluated "
             "at run end. Node level: fault-free executions of full nodes (consensus.rs glue: validate, forward - incl. the leader relaying its own shreds -, store) in which every shred of every finalized slot must be scheduled for every validator other than the leader.",
        note="agreement is observed through the destinations of network sends; epochs sampled up to N=64, no faults/losses (the "
             "property is about fault-free runs); the Rotor::new_fa1 constructor panic for some stake vectors is a known finding "
             "(same root cause as C17-partition-empty-bins)",
        technique="TLA+ spec + TLC exhaustive BFS over routing functions and schedules; code->spec trace validation with inferred routing function",
        design="4 C16"),
})

CHECKS.update({
    "C14": dict(
        text="Repair.tla models the requester (checks in code order), the per-hash repaired store and the responder over the "
             "ideal-hash Merkle spec. TLC checks StoredOnlyIfHashMatches, ProvenRootsAreTrue, NoPanic, Progressable, NoCorruption, "
             "UnsolicitedIgnored, GoodAnswersVerify, InvalidChangesNothing on the transition graph with a good and a hostile "
             "responder (valid/replay, NACK, other variant, wrong / aliased / beyond index, wrong root, corrupted proof, other "
             "block, shred of another group/slice/slot/block, foreign signature, altered payload, flipped last-flag twin, "
             "unsolicited), decides GoodPeerEventuallyCompletes by deadlock checking on the budgeted finite DAG, and requires the "
             "transcription of the pre-repair code to violate them. Every transition is replayed through hooks into the real "
             "Repair, BlockstoreImpl and RepairRequestHandler::run task (requests on the wire, Block events, panics, projected "
             "state, answers verified with the real check_proof(_last)/ValidatedShred); responder cases and hostile scripts run "
             "through the real handlers and the real repair_loop with its timers. A Byzantine peer answering with an authentic shred whose unauthenticated data/coding tag is flipped is an answer class of its own: refused, nothing stored, request still outstanding, the leader never reported (CorrectLeaderNeverFlaggedByRepair).",
        note="blocks of 1-3 slices, shreds in groups, one block under repair; oldest-first timeout order and concurrent repairs not "
             "covered; hash / signature breaks out of scope; " + TB,
        technique="TLA+ spec + TLC exhaustive BFS (safety, action properties, deadlock-based progress) + spec->code transition / case / script replay",
        design="4 C14"),
})

CHECKS.update({
    "C12": dict(
        text="ShredAuth.tla: a commitment algebra over ideal signatures and the ideal hash of Merkle.tla; the implementation-shaped "
             "try_new is shown equal to the declarative ValidShred / EquivocationProof on every enumerated case "
             "(AcceptedImpliesSigned, AlteredRejected, CacheOnlyShortcutsIdentical, TwoCommitmentsReported, "
             "CorrectLeaderNeverAccused); the block store of one slot is explored over every arrival order of honest shreds, relay "
             "mutants and a Byzantine leader's conflicting signed slices: a correct leader is never flagged, no second commitment "
             "is stored for a slice, conflicts are reported. Every case (all field mutations incl. each proof element, index "
             "aliases, cross-slot/slice/index replays x cached commitment none/identical/different) and every sequence is "
             "replayed into real shreds, ValidatedShred::try_new and BlockstoreImpl.",
        note="mutation/replay/cache case structure exhaustive at the real width (thorough: all 64 positions x all index targets), "
             "arrival orders at <= 8 shreds per slice; ideal crypto in the spec; one slot, <= 2 slices; repair path not driven; " + TB,
        technique="TLA+ spec (commitment algebra + block-store state machine) + TLC exhaustive exploration and case/sequence enumeration + spec->code replay",
        design="4 C12"),
})

CHECKS.update({
    "C13": dict(
        text="Blockstore.tla models one slot's dissemination spot as pure operators in the code's order (misbehaviour flag, "
             "commitment cache, last-slice consistency, duplicate, first shred without reconstruction, slice, block) counting real "
             "shreds (32 of 64) in fixed groups; scenarios generated in TLA+: correct blocks of 1-3 slices with and without one "
             "parent switch, a conflicting signed slice at every position, one malformed slice of every class at every position "
             "(undecodable payload / transactions, no parent, switch to itself, switch twice, parent not in an earlier slot), the "
             "leader fast path. TLC checks 18 invariants (BlockIffComplete, BlockIsLeaders, FirstShredOnce, BlockOnce, InvalidOnce, "
             "NoBlockAfterInvalid, MalformedFlagged in either arrival order, ServesAll, FastPathEqualsFollower); every transition "
             "is replayed into a real BlockstoreImpl with slices shredded by the real shredder and signed by a leader key, comparing "
             "return values, events, the announced block, the Pool::add_block hand-over, the projected state, and after completion "
             "all shreds / slice roots / proofs served. The repair spot of the same block hash is modelled next to the dissemination spot (RepairStep in any interleaving, getters resolved as in the code): a block is served once EITHER spot completed it, whatever the other holds.",
        note="one slot, dissemination spot only (repair spots: C14), <= 3 slices, five fixed groupings of shred indices; the node's "
             "ingest glue (consensus.rs) is transcribed in the driver, the real one is exercised by the simulator (C01/C10); " + TB,
        technique="TLA+ spec + TLC exhaustive BFS + spec->code transition replay",
        design="4 C13"),
})

NOT_YET = {
    "C01": "check not built yet in this round (abstract protocol model + simulator planned, DESIGN 4 C01)",
    "C02": "check not built yet in this round (DESIGN 4 C02)",
    "C05": "check not built yet in this round (DESIGN 4 C05)",
    "C07": "check not built yet in this round (DESIGN 4 C07)",
    "C08": "check not built yet in this round (DESIGN 4 C08)",
    "C09": "check not built yet in this round (DESIGN 4 C09)",
    "C10": "check not built yet in this round (DESIGN 4 C10)",
    "C11": "check not built yet in this round (DESIGN 4 C11)",
    "C12": "check not built yet in this round (DESIGN 4 C12)",
    "C13": "check not built yet in this round (DESIGN 4 C13)",
    "C14": "check not built yet in this round (DESIGN 4 C14)",
    "C15": "check not built yet in this round (DESIGN 4 C15)",
    "C16": "check not built yet in this round (DESIGN 4 C16)",
    "C17": "check not built yet in this round (DESIGN 4 C17)",
    "C18": "check not built yet in this round (DESIGN 4 C18)",
    "C19": "check not built yet in this round (DESIGN 4 C19)",
    "C20": "check not built yet in this round (DESIGN 4 C20)",
}

BASELINE_OFF = ("cd /repo && cargo nextest run --workspace --no-fail-fast --test-threads 8 --offline "
                "|| cargo test --workspace --no-fail-fast --offline")


def main():
    checks = []
    for pid in sorted(CHECKS):
        c = CHECKS[pid]
        checks.append({
            "property_id": pid,
            "quick_cmd": f"bin/check {pid} --tier quick",
            "thorough_cmd": f"bin/check {pid} --tier thorough",
            "evidence_file": f"/verif/evidence/{pid}.json",
            "engine": "tla-tlc-replay",
            "level_claimed": {"category": "model_checking", "text": c["text"], "design_ref": c["design"]},
            "level_note": c["note"],
            "technique": c["technique"],
        })
    m = {
        "version": 1,
        "setup_cmd": "bin/setup",
        "hooks": {
            "guard": "cargo feature verif-hooks",
            "enable": "harness/Cargo.toml: alpenglow = { path = \"/repo\", features = [\"test-utils\", \"verif-hooks\"] }",
            "baseline_off_cmd": BASELINE_OFF,
            "source_commits": [l.split()[0] for l in HOOK_COMMITS],
            "add_only": True,
        },
        "engines": [{
            "name": "tla-tlc-replay",
            "path": "/verif/bin/check",
            "serves_properties": sorted(CHECKS),
            "kind_free_text": "TLA+ specifications (spec/*.tla) model-checked with TLC; transitions dumped by "
                              "ACTION_CONSTRAINT and replayed into the real Rust objects by harness/ "
                              "(spec->code), and recorded traces validated by TLC (code->spec)",
        }],
        "checks": checks,
        "not_applicable": [{"property_id": k, "reason": v} for k, v in sorted(NOT_YET.items())
                           if k not in CHECKS],
        "notes": "All checks exit 2 (not 1) on tool errors/timeouts. known_findings.json lists recorded and fixed defects.",
    }
    with open(os.path.join(VERIF, "MANIFEST.json"), "w") as f:
        json.dump(m, f, indent=1)
    print("wrote MANIFEST.json with", len(checks), "checks")


if __name__ == "__main__":
    main()
