#!/usr/bin/env python3
"""Prints the prompt for a fresh mutation sub-agent for one property (only the property text is shared)."""
import json, sys
pid = sys.argv[1]
suffix = sys.argv[2] if len(sys.argv) > 2 else ''
avoid = sys.argv[3] if len(sys.argv) > 3 else ''
for l in open('/verif/properties.jsonl'):
    p = json.loads(l)
    if p['id'] == pid:
        break
wt = f"/tmp/mut-{pid.lower()}{suffix}"
print(f"""You are helping to evaluate a verification effort by producing realistic BUGGY variants of a Rust codebase. Work ONLY in your own scratch git worktree; never modify /repo itself and do not look at /verif.

Setup (run exactly):
  git -C /repo worktree add --detach {wt} HEAD
  cd {wt}
The crate is qkniep/alpenglow (research implementation of the Alpenglow BFT consensus protocol: vote pool, certificates, voting logic, erasure-coded block dissemination, Merkle-based repair). It builds offline; run its tests with: cd {wt} && cargo test --offline --lib 2>&1 | tail -5   (about 260 unit tests; 2 tests `network::simulated::ping_data::tests::basic` and `network::simulated::stake_distribution::tests::basic` fail in this sandbox even on the unchanged tree because data files are missing - ignore those two; everything else passes). No network access.

The semantic property under study ({pid}: {p['title']}):
  "{p['statement']}"
  Quantified over: {p['quantifier']['text']}
  Relevant files: {', '.join(p['anchors']['files'])}

Task: produce TWO independent, different changes (mutants) to the source code under {wt}/src, each of which
  (1) BREAKS this property for some input / schedule / history,
  (2) still compiles, and still passes the existing test-suite (cargo test --offline --lib, apart from the two known-failing tests above; also run `cargo test --offline --test '*' 2>&1 | tail -5` if quick, failures of smoke tests that need CLI binaries are pre-existing and can be ignored),
  (3) is REALISTIC (the kind of slip a maintainer could make in a refactor or optimisation: a condition weakened or moved, an off-by-one at a threshold, an update done in the wrong order, a case forgotten, a cache not invalidated, a check applied to the wrong field) - not a blatant sabotage, and
  (4) needs something SPECIFIC to manifest: a particular interleaving / arrival order, a fault at a particular point, a multi-step sequence of operations, an unusual input (e.g. stakes landing exactly on a threshold), or two cooperating sites that each look fine alone - NOT something that ordinary use (the happy path) would expose at once.
For each mutant also write a DEMONSTRATION: a Rust unit test (added to the appropriate `#[cfg(test)] mod tests` of the crate, or an integration test file) that FAILS with the mutant applied and PASSES on the unchanged code. Verify both directions yourself (git stash / git diff / git apply in YOUR worktree only).

Deliver, for mutant k in {{1,2}}, the files in /tmp/mut-{pid.lower()}{suffix}-out/m<k>/ :
  patch.diff   - `git diff` of the source change ONLY (no test), applicable with `git apply` at the root of a checkout of the same commit
  demo.diff    - `git diff` adding ONLY the demonstration test (applies on the unchanged tree and on top of patch.diff)
  README.md    - which clause of the property it breaks, what it needs in order to manifest (the specific order/input), the exact commands you ran and their outcomes (suite passes with mutant; demo fails with mutant, passes without)
When done, leave the worktree in the UNCHANGED state (git checkout -- . ; remove untracked test files) and run `cargo clean` in it is NOT necessary (the main developer removes the worktree). Keep CPU use modest (others share the machine): use `cargo test --offline --lib -j 4`.
{("Already explored by others - choose DIFFERENT sites and ideas: " + avoid) if avoid else ""}
Final message: a short summary of the two mutants (one paragraph each).""")
