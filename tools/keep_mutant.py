#!/usr/bin/env python3
"""tools/keep_mutant.py <out_dir> <seeded_id> <property> <needs...> -- <ran / results...>
Copies a confirmed seeded change into /verif/seeded/<id>/ with meta.json."""
import json, os, shutil, sys
src, sid, prop = sys.argv[1:4]
rest = sys.argv[4:]
sep = rest.index("--")
needs = " ".join(rest[:sep]); results = rest[sep + 1:]
dst = f"/verif/seeded/{sid}"
os.makedirs(dst, exist_ok=True)
for f in ("patch.diff", "demo.diff", "README.md", "CONFIRM.txt"):
    if os.path.exists(os.path.join(src, f)):
        shutil.copy(os.path.join(src, f), os.path.join(dst, f))
confirm = open(os.path.join(dst, "CONFIRM.txt")).read() if os.path.exists(os.path.join(dst, "CONFIRM.txt")) else ""
meta = {"id": sid, "breaks_property": prop, "needs_to_manifest": needs,
        "confirmed": {"suite_with_change": "254 passed, only the 2 known data-file tests fail" if "254 passed; 2 failed" in confirm else confirm,
                      "demo_fails_with_change": "FAILED" in confirm.split("demo_without_mutant")[0],
                      "demo_passes_without_change": "FAILED" not in confirm.split("demo_without_mutant")[-1]},
        "what_was_run": ["tools/confirm_mutants.sh (scratch worktree: cargo test --offline --lib with change; demo with / without)",
                         "tools/eval_mutant.sh (scratch copy of /repo + harness: bin/check <PROP> --tier quick)"],
        "check_results": results}
json.dump(meta, open(os.path.join(dst, "meta.json"), "w"), indent=1)
print("kept", dst)
